package props

import (
	"go/constant"
	"go/token"
	"sort"
	"strings"

	"mrocheck/an"

	"golang.org/x/tools/go/ssa"
)

// isState: v is the MetadataState constant named name (by value and type).
func isState(p *an.Prog, v ssa.Value, name string) bool {
	return an.IsConst(v, p.Const(pkgCore, name))
}

// isPrefixed: v is State.Prefixed(Prefix) with constant operands, or the
// equivalent constant of type MetadataState.
func isPrefixed(p *an.Prog, v ssa.Value, state, prefix string) bool {
	sc := p.Const(pkgCore, state)
	pc := p.Const(pkgCore, prefix)
	if sc == nil || pc == nil {
		return false
	}
	if call, ok := v.(*ssa.Call); ok {
		f := call.Call.StaticCallee()
		if f != nil && f.Name() == "Prefixed" && len(call.Call.Args) == 2 {
			return an.IsConst(call.Call.Args[0], sc) && an.IsConst(call.Call.Args[1], pc)
		}
	}
	if cv, ok := an.ConstVal(v); ok && cv.Kind() == constant.String {
		return constant.StringVal(cv) == constant.StringVal(pc.Val())+constant.StringVal(sc.Val())
	}
	return false
}

// relEq: relation is `a == b` where one side satisfies x and the other y.
func relEq(r an.Rel, x, y func(ssa.Value) bool) bool {
	if r.Op != token.EQL {
		return false
	}
	return (x(r.X) && y(r.Y)) || (x(r.Y) && y(r.X))
}

func relNeq(r an.Rel, x, y func(ssa.Value) bool) bool {
	if r.Op != token.NEQ {
		return false
	}
	return (x(r.X) && y(r.Y)) || (x(r.Y) && y(r.X))
}

func anyVal(ssa.Value) bool { return true }

// callsTo lists call instructions (call/defer/go) in fn (incl. closures) whose static callee is target.
func callsTo(fn *ssa.Function, target *ssa.Function) []ssa.CallInstruction {
	var out []ssa.CallInstruction
	an.InstrsDeep(fn, func(_ *ssa.Function, in ssa.Instruction) {
		if c := an.AsCall(in); c != nil && target != nil && c.Common().StaticCallee() == target {
			out = append(out, c)
		}
	})
	return out
}

// callerNames renders the caller set of fn.
func callerNames(p *an.Prog, fn *ssa.Function) []string {
	var out []string
	for c := range p.Callers(fn) {
		out = append(out, an.FnName(c))
	}
	sort.Strings(out)
	return out
}

func sameSet(a, b []string) bool {
	if len(a) != len(b) {
		return false
	}
	x := append([]string{}, a...)
	y := append([]string{}, b...)
	sort.Strings(x)
	sort.Strings(y)
	return strings.Join(x, "|") == strings.Join(y, "|")
}

func subset(a, allowed []string) (bool, string) {
	m := map[string]bool{}
	for _, x := range allowed {
		m[x] = true
	}
	for _, x := range a {
		if !m[x] {
			return false, x
		}
	}
	return true, ""
}

// writesFile: in is a call of a Metadata write method (Write, WriteRaw, WriteRawBytes, WriteTime, WriteAtomic, _writeRawNoLock)
// whose file-name argument is the MetadataFileName constant named name.
func writesFile(p *an.Prog, in ssa.Instruction, name string) bool {
	c := an.AsCall(in)
	if c == nil {
		return false
	}
	f := c.Common().StaticCallee()
	if f == nil || f.Signature.Recv() == nil {
		return false
	}
	switch f.Name() {
	case "Write", "WriteRaw", "WriteRawBytes", "WriteTime", "WriteAtomic", "_writeRawNoLock", "appendRaw":
	default:
		return false
	}
	if _, ok := an.IsMethodCall(in, corePath, "Metadata", f.Name()); !ok {
		return false
	}
	args := c.Common().Args
	if len(args) < 2 {
		return false
	}
	return an.IsConst(args[1], p.Const(pkgCore, name))
}

// mayWriteFile is writesFile where the file-name argument may also be a phi
// one of whose incoming values is the named constant.
func mayWriteFile(p *an.Prog, in ssa.Instruction, name string) bool {
	if writesFile(p, in, name) {
		return true
	}
	c := an.AsCall(in)
	if c == nil {
		return false
	}
	f := c.Common().StaticCallee()
	if f == nil || f.Signature.Recv() == nil {
		return false
	}
	switch f.Name() {
	case "Write", "WriteRaw", "WriteRawBytes", "WriteTime", "WriteAtomic":
	default:
		return false
	}
	if _, ok := an.IsMethodCall(in, corePath, "Metadata", f.Name()); !ok {
		return false
	}
	args := c.Common().Args
	if len(args) < 2 {
		return false
	}
	var has func(v ssa.Value, d int) bool
	has = func(v ssa.Value, d int) bool {
		if d > 4 {
			return false
		}
		if an.IsConst(v, p.Const(pkgCore, name)) {
			return true
		}
		if ph, ok := v.(*ssa.Phi); ok {
			for _, e := range ph.Edges {
				if has(e, d+1) {
					return true
				}
			}
		}
		return false
	}
	return has(args[1], 0)
}

// familyOf returns fn together with its private helpers: functions of the same package that fn (or
// another member) calls statically and that are called from nowhere else, up to the given depth.
// Extracting a block of a function into such a helper is the commonest behaviour-preserving edit;
// rules that look for a construct "in function F" look in F's family instead.
func familyOf(p *an.Prog, fn *ssa.Function, depth int) []*ssa.Function {
	if fn == nil {
		return nil
	}
	fam := map[*ssa.Function]bool{fn: true}
	order := []*ssa.Function{fn}
	for d := 0; d < depth; d++ {
		grew := false
		for _, m := range append([]*ssa.Function{}, order...) {
			for _, g := range an.WithAnon(m) {
				an.Instrs(g, func(in ssa.Instruction) {
					cl := an.AsCallAny(in)
					if cl == nil {
						return
					}
					if _, isGo := in.(*ssa.Go); isGo {
						return
					}
					callee := cl.Common().StaticCallee()
					if callee == nil || fam[callee] || callee.Blocks == nil || callee.Pkg == nil || fn.Pkg == nil || callee.Pkg != fn.Pkg || callee.Parent() != nil {
						return
					}
					if callee.Object() != nil && callee.Object().Exported() {
						return
					}
					private := true
					for caller := range p.Callers(callee) {
						root := caller
						for root.Parent() != nil {
							root = root.Parent()
						}
						if !fam[root] && root != callee {
							private = false
						}
					}
					if private {
						fam[callee] = true
						order = append(order, callee)
						grew = true
					}
				})
			}
		}
		if !grew {
			break
		}
	}
	return order
}

// guardedInFamily: instruction `in` is dominated by an edge satisfying pred - inside its own
// function, or, when that function is a private helper of the anchor (see familyOf), at every call
// site of the helper inside the family.
func guardedInFamily(p *an.Prog, fam []*ssa.Function, in ssa.Instruction, pred func(an.Rel) bool, depth int) bool {
	if g, _ := an.GuardedBy(in, pred); g {
		return true
	}
	if depth > 2 || len(fam) == 0 {
		return false
	}
	fn := in.Parent()
	for fn != nil && fn.Parent() != nil {
		fn = fn.Parent()
	}
	if fn == fam[0] {
		return false
	}
	inFam := false
	for _, f := range fam {
		if f == fn {
			inFam = true
		}
	}
	if !inFam {
		return false
	}
	n := 0
	for _, sites := range p.Callers(fn) {
		for _, s := range sites {
			n++
			si, ok := s.(ssa.Instruction)
			if !ok || !guardedInFamily(p, fam, si, pred, depth+1) {
				return false
			}
		}
	}
	return n > 0
}

// effectiveCallers lists the callers of fn, looking through private helpers: a caller that is not in
// `allowed`, is unexported, lives in fn's package and has callers of its own is replaced by its own
// (effective) callers.  Extracting the body of an allowed caller into a helper therefore does not
// change the set.
func effectiveCallers(p *an.Prog, fn *ssa.Function, allowed []string) []string {
	ok := map[string]bool{}
	for _, a := range allowed {
		ok[a] = true
	}
	out := map[string]bool{}
	seen := map[*ssa.Function]bool{}
	var rec func(f *ssa.Function, d int)
	rec = func(f *ssa.Function, d int) {
		var callers []*ssa.Function
		for caller := range p.Callers(f) {
			root := caller
			for root.Parent() != nil {
				root = root.Parent()
			}
			if root.Synthetic != "" && (strings.HasSuffix(root.Name(), "$thunk") || strings.HasSuffix(root.Name(), "$bound")) {
				// a method value: the caller that matters is whoever takes the method as a value
				// (`self.eachJobMetadata((*Metadata).checkedReset)`), not the wrapper
				callers = append(callers, valueUsers(p, root)...)
				continue
			}
			callers = append(callers, root)
		}
		for _, root := range callers {
			name := an.FnName(root)
			if ok[name] || d >= 3 || seen[root] {
				out[name] = true
				continue
			}
			private := root.Pkg != nil && fn.Pkg != nil && root.Pkg == fn.Pkg && root.Object() != nil && !root.Object().Exported() && len(p.Callers(root)) > 0 && root != fn
			if !private {
				out[name] = true
				continue
			}
			seen[root] = true
			rec(root, d+1)
		}
	}
	rec(fn, 0)
	var names []string
	for n := range out {
		names = append(names, n)
	}
	sort.Strings(names)
	return names
}

// familyOfShared is familyOf for a group of sibling functions: a helper counts as private when all of
// its callers are members of some sibling's family (a helper shared by several implementations of one
// interface method).
func familyOfShared(p *an.Prog, fn *ssa.Function, siblings []*ssa.Function, depth int) []*ssa.Function {
	fam := map[*ssa.Function]bool{}
	for _, s := range siblings {
		fam[s] = true
	}
	order := []*ssa.Function{fn}
	inOrder := map[*ssa.Function]bool{fn: true}
	for d := 0; d < depth; d++ {
		grew := false
		for _, m := range append([]*ssa.Function{}, order...) {
			an.Instrs(m, func(in ssa.Instruction) {
				cl := an.AsCallAny(in)
				if cl == nil {
					return
				}
				callee := cl.Common().StaticCallee()
				if callee == nil || inOrder[callee] || callee.Blocks == nil || callee.Pkg == nil || callee.Pkg != fn.Pkg || callee.Parent() != nil {
					return
				}
				if callee.Object() != nil && callee.Object().Exported() {
					return
				}
				private := true
				for caller := range p.Callers(callee) {
					root := caller
					for root.Parent() != nil {
						root = root.Parent()
					}
					if !fam[root] && root != callee {
						private = false
					}
				}
				if private {
					fam[callee] = true
					inOrder[callee] = true
					order = append(order, callee)
					grew = true
				}
			})
		}
		if !grew {
			break
		}
	}
	return order
}

// isPrivateHelperOf: h belongs to the family of fn (see familyOf).
func isPrivateHelperOf(p *an.Prog, fn, h *ssa.Function) bool {
	for _, m := range familyOf(p, fn, 2) {
		if m == h && m != fn {
			return true
		}
	}
	return false
}

var valueUsersMemo = map[*ssa.Function][]*ssa.Function{}

// valueUsers: the (outermost) functions of the program that use fn as a value (operand of an
// instruction other than as the callee of a call).
func valueUsers(p *an.Prog, fn *ssa.Function) []*ssa.Function {
	if us, ok := valueUsersMemo[fn]; ok {
		return us
	}
	seen := map[*ssa.Function]bool{}
	var out []*ssa.Function
	for g := range p.AllFns {
		if g.Blocks == nil {
			continue
		}
		an.Instrs(g, func(in ssa.Instruction) {
			for _, op := range in.Operands(nil) {
				if *op == ssa.Value(fn) {
					if cl := an.AsCallAny(in); cl != nil && cl.Common().Value == ssa.Value(fn) {
						continue
					}
					o := an.Outermost(g)
					if !seen[o] {
						seen[o] = true
						out = append(out, o)
					}
				}
			}
		})
	}
	sort.Slice(out, func(i, j int) bool { return out[i].String() < out[j].String() })
	valueUsersMemo[fn] = out
	return out
}
