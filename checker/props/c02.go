package props

import (
	"fmt"
	"go/token"
	"go/types"
	"sort"
	"strings"

	"mrocheck/an"

	"golang.org/x/tools/go/ssa"
)

func init() {
	Registry["C02"] = Entry{
		Run: runC02,
		Explanation: "Decides structural necessary conditions of 'jobs start only after everything they depend on has finished': " +
			"O1 who-may-submit (exact caller sets of runJob/runSplit/runChunk/runJoin/doSplit/doChunks/doJoin/doComplete/Fork.step), " +
			"O2 phase guards in stepStage (each phase function is dominated by the matching <phase>_complete comparison, with no reassignment of state in between) " +
			"and the all-chunks-complete flag in Fork.getState, " +
			"O3 Node.getState returns Running only after every prenode was seen Complete/Disabled and Node.step steps forks only under state==Running; Node.state is only assigned from getState, " +
			"O4 each dependency-bearing accessor of the call-graph node (ResolvedInputs, Disabled, ResolvedOutputs) flows into Node.prenodes and setPostNode; in makePrenodesForBinding the raw-reference pass (Exp.FindRefs, fork roots) lies on every returning path and its elements are inserted into the prenode set, " +
			"O5 preflight nodes become prenodes of every non-preflight sub-node and setPrenode recurses into sub-pipelines, " +
			"O6 a merge over a run-time fork count whose ForkNode is nil (meaning the mapped call itself, as the runtime's fallback shows) still yields a prenode: FindRefs adds a Call-derived reference or a function reachable from makePrenodesForBinding handles the nil case. " +
			"O4 also: every loop over the node's disabling conditions enumerates the references inside each entry (FindRefs), so a condition wrapped by a mapped call still yields its prenode. " +
			"O2b if a scan of Fork.chunks in the state function starts at a position remembered in a field, every function replacing Fork.chunks clears that field. " +
			"O7 a function comparing the OutputId of two references also compares their Id. " +
			"O8 in the disable-collection classifiers every boolean verdict is false after an iteration that took the *RefExp arm. " +
			"NOT decided: that FindRefs returns every reference, metadata state derivation from real files, job manager scheduling.",
		Assumptions: commonAssumptions,
	}
}

func runC02(c *an.Ctx) {
	ruleO1(c)
	ruleO2(c)
	ruleO3(c)
	ruleO4(c)
	ruleO5(c)
	ruleO6(c)
	ruleO2b(c)
	ruleO7(c)
	ruleO8(c)
	// O9 (round 11, seed C02_k): a reused attempt id lets a late `complete` of an abandoned attempt complete the
	// current one, and the join starts while the chunk still runs - the rule of J8 / R3c, needed here too.
	ruleUniqOrder(c, "O9")
}

// ---------------------------------------------------------------------------
// O1 who may submit
// ---------------------------------------------------------------------------

func ruleO1(c *an.Ctx) {
	exact := []struct {
		fn      string
		callers []string
	}{
		{"(*Node).runJob", []string{"(*Node).runSplit", "(*Node).runChunk", "(*Node).runJoin"}},
		{"(*Node).runSplit", []string{"(*Fork).doSplit"}},
		{"(*Node).runChunk", []string{"(*Chunk).step"}},
		{"(*Node).runJoin", []string{"(*Fork).doJoin"}},
		{"(*Chunk).step", []string{"(*Fork).doChunks"}},
		{"(*Fork).doSplit", []string{"(*Fork).stepStage"}},
		{"(*Fork).doChunks", []string{"(*Fork).stepStage"}},
		{"(*Fork).doJoin", []string{"(*Fork).stepStage"}},
		{"(*Fork).doComplete", []string{"(*Fork).stepStage"}},
		{"(*Fork).stepStage", []string{"(*Fork).step"}},
		{"(*Fork).stepPipeline", []string{"(*Fork).step"}},
		{"(*Fork).step", []string{"(*Node).step"}},
	}
	for _, e := range exact {
		fn := c.NeedFunc(pkgCore, e.fn)
		if fn == nil {
			continue
		}
		got := effectiveCallers(c.P, fn, e.callers)
		ok, extra := subset(got, e.callers)
		c.Check("O1", "callers("+e.fn+")", fn.Pos(), ok && len(got) > 0,
			fmt.Sprintf("callers must be within %v; found %v (unexpected: %q)", e.callers, got, extra))
	}
	// execJob (the job managers' submission entry) is called only from runJob
	for _, fn := range coreFns(c) {
		an.Instrs(fn, func(in ssa.Instruction) {
			call := an.AsCall(in)
			if call == nil || !call.Common().IsInvoke() || call.Common().Method.Name() != "execJob" {
				return
			}
			c.Check("O1", "invoke(JobManager.execJob)@"+an.FnName(fn), in.Pos(), an.FnName(fn) == "(*Node).runJob",
				"jobs may be handed to a job manager only from Node.runJob")
		})
	}
}

// ---------------------------------------------------------------------------
// O2 phase guards
// ---------------------------------------------------------------------------

func ruleO2(c *an.Ctx) {
	p := c.P
	stepStage := c.NeedFunc(pkgCore, "(*Fork).stepStage")
	if stepStage == nil {
		return
	}
	phases := []struct {
		callee, state, prefix string
	}{
		{"(*Fork).doSplit", "Ready", ""},
		{"(*Fork).doChunks", "Complete", "SplitPrefix"},
		{"(*Fork).doJoin", "Complete", "ChunksPrefix"},
		{"(*Fork).doComplete", "Complete", "JoinPrefix"},
	}
	for _, ph := range phases {
		callee := c.NeedFunc(pkgCore, ph.callee)
		if callee == nil {
			continue
		}
		sites := callsTo(stepStage, callee)
		c.Floor("O2", "calls of "+ph.callee+" in stepStage", len(sites), 1)
		for _, site := range sites {
			in := site.(ssa.Instruction)
			// which variable holds the state? the guard must compare a load of the
			// same alloc (state is captured by the getBindings closure) or SSA value.
			var tested ssa.Value
			pred := func(r an.Rel) bool {
				match := func(v ssa.Value) bool {
					if ph.prefix == "" {
						return isState(p, v, ph.state)
					}
					return isPrefixed(p, v, ph.state, ph.prefix)
				}
				if r.Op != token.EQL {
					return false
				}
				if match(r.Y) {
					tested = r.X
					return true
				}
				if match(r.X) {
					tested = r.Y
					return true
				}
				return false
			}
			kill := func(x ssa.Instruction) bool {
				// reassignment of the state variable, or a call that may reassign it through the closure
				if st, ok := x.(*ssa.Store); ok {
					if a, isAlloc := st.Addr.(*ssa.Alloc); isAlloc && a.Comment == "state" {
						return true
					}
				}
				return false
			}
			ok := an.GuardedByStable(in, pred, kill)
			what := ph.state
			if ph.prefix != "" {
				what = ph.state + ".Prefixed(" + ph.prefix + ")"
			}
			// the tested value must be the fork state: a load of the local `state`
			// (initialised from self.getState()) or the getState() result itself.
			stateOK := false
			if ok && tested != nil {
				stateOK = derivesFromForkState(p, stepStage, tested)
			}
			c.Check("O2", "phase-guard("+ph.callee+" under state=="+what+")@(*Fork).stepStage", in.Pos(), ok && stateOK,
				"the phase function must be dominated by the comparison of the fork state with "+what+" (no reassignment in between)")
		}
	}
	// Node.step: fork.step() only while the node is Running
	nodeStep := c.NeedFunc(pkgCore, "(*Node).step")
	forkStep := c.NeedFunc(pkgCore, "(*Fork).step")
	nodeState := p.Field(pkgCore, "Node", "state")
	if nodeStep != nil && forkStep != nil && nodeState != nil {
		sites := callsTo(nodeStep, forkStep)
		c.Floor("O3", "calls of Fork.step in Node.step", len(sites), 1)
		for _, s := range sites {
			ok, w := an.GuardedBy(s.(ssa.Instruction), func(r an.Rel) bool {
				return relEq(r, func(v ssa.Value) bool { return an.LoadsField(v, nodeState) },
					func(v ssa.Value) bool { return isState(p, v, "Running") })
			})
			c.Check("O3", "step-guard(fork.step under node.state==Running)@(*Node).step", s.Pos(), ok,
				"forks are stepped only while the node is Running (all prenodes done); "+c.WitnessString(w))
		}
		// Node.state is assigned only from Node.getState()
		getState := c.NeedFunc(pkgCore, "(*Node).getState")
		n := 0
		for _, fn := range coreFns(c) {
			for _, st := range an.StoresToField(fn, nodeState) {
				if st.Parent() != fn {
					continue
				}
				n++
				ok := valueFromCall(st.Val, getState, 0)
				c.Check("O3", "assign(Node.state from getState)@"+an.FnName(fn), st.Pos(), ok,
					"Node.state must only be assigned the result of Node.getState()")
			}
		}
		c.Floor("O3", "stores to Node.state", n, 1)
	}

	// Fork.getState: chunks_complete only when every chunk was seen Complete
	forkGetState := c.NeedFunc(pkgCore, "(*Fork).getState")
	chunkGetState := c.NeedFunc(pkgCore, "(*Chunk).getState")
	if forkGetState != nil && chunkGetState != nil {
		// the aggregation may live in a private helper of Fork.getState: look in the whole family, at
		// every returned value (a helper may return the state as one of several results)
		nRets, nCalls := 0, 0
		for _, fn := range familyOf(p, forkGetState, 2) {
			var rets []*ssa.Return
			an.Instrs(fn, func(in ssa.Instruction) {
				r, ok := in.(*ssa.Return)
				if !ok {
					return
				}
				for i := range r.Results {
					if isPrefixed(p, an.RetVal(r, i), "Complete", "ChunksPrefix") {
						rets = append(rets, r)
						break
					}
				}
			})
			if len(rets) == 0 {
				continue
			}
			nRets += len(rets)
			calls := callsTo(fn, chunkGetState)
			nCalls += len(calls)
			if len(calls) == 0 {
				c.Fail("O2", "all-chunks-complete(return chunks_complete)@"+an.FnName(fn), rets[0].Pos(), "chunks_complete is returned by a function that does not inspect the chunks' states")
			}
			for _, r := range rets {
				for _, s := range calls {
					s := s
					ok, why := allFlag(fn, r, s.(*ssa.Call), func(rel an.Rel) bool {
						return relEq(rel, func(v ssa.Value) bool { return v == s.Value() }, func(v ssa.Value) bool { return isState(p, v, "Complete") })
					})
					c.Check("O2", "all-chunks-complete(return chunks_complete)@"+an.FnName(fn), r.Pos(), ok,
						"chunks_complete may be returned only if every chunk's state compared equal to Complete: "+why)
				}
			}
		}
		c.Floor("O2", "return Complete.Prefixed(ChunksPrefix) in Fork.getState or its private helpers", nRets, 1)
		c.Floor("O2", "chunk.getState() calls next to them", nCalls, 1)
	}
}

// derivesFromForkState: v is (a load of a local initialised from) self.getState().
func derivesFromForkState(p *an.Prog, fn *ssa.Function, v ssa.Value) bool {
	getState := p.Func(pkgCore, "(*Fork).getState")
	if u, ok := v.(*ssa.UnOp); ok && u.Op == token.MUL {
		if a, ok := u.X.(*ssa.Alloc); ok {
			// every store to the alloc in fn stores getState() or the result of a do* phase function
			okAll, n := true, 0
			an.InstrsDeep(fn, func(_ *ssa.Function, in ssa.Instruction) {
				if st, ok := in.(*ssa.Store); ok && st.Addr == ssa.Value(a) {
					n++
					if call, ok := st.Val.(*ssa.Call); ok {
						if f := call.Call.StaticCallee(); f != nil && (f == getState || strings.HasPrefix(f.Name(), "do")) {
							return
						}
					}
					if isState(p, st.Val, "Failed") {
						return
					}
					okAll = false
				}
			})
			return okAll && n > 0
		}
	}
	return valueFromCall(v, getState, 0)
}

// valueFromCall: v is a call of fn, or a phi all of whose edges are.
func valueFromCall(v ssa.Value, fn *ssa.Function, d int) bool {
	if d > 4 || fn == nil {
		return false
	}
	switch x := v.(type) {
	case *ssa.Call:
		return x.Call.StaticCallee() == fn
	case *ssa.Phi:
		for _, e := range x.Edges {
			if !valueFromCall(e, fn, d+1) {
				return false
			}
		}
		return true
	}
	return false
}

// allFlag decides the "all elements satisfied" idiom: return instruction R is
// reached only if, in every loop iteration, the per-element call S satisfied
// okEdge.  Conditions:
//
//	(i)   R is guarded by the truth of a boolean flag G (a phi web);
//	(ii)  the only constants entering the phi web are true/false, and `true`
//	      enters only on edges from blocks that S cannot reach (initialisation);
//	(iii) every path from S to the next execution of S or to R crosses okEdge
//	      or a phi edge that sets the flag to false.
func allFlag(fn *ssa.Function, R ssa.Instruction, S ssa.Instruction, okEdge func(an.Rel) bool) (bool, string) {
	return allFlagOpt(fn, R, S, okEdge, false)
}

// allFlagOpt with fromS=true requires the flag guard only on paths that pass
// through S (R may legitimately be reached without examining any element).
func allFlagOpt(fn *ssa.Function, R ssa.Instruction, S ssa.Instruction, okEdge func(an.Rel) bool, fromS bool) (bool, string) {
	// (i) find the flag: try every boolean phi that guards R
	var cands []*ssa.Phi
	an.Instrs(fn, func(in ssa.Instruction) {
		if iff, ok := in.(*ssa.If); ok {
			if ph, isPhi := iff.Cond.(*ssa.Phi); isPhi {
				pred := func(r an.Rel) bool { return r.Op == token.ILLEGAL && r.Truth && r.X == ssa.Value(ph) }
				g, _ := an.GuardedBy(R, pred)
				if fromS {
					g = an.Query{Fn: fn, After: S, Target: func(x ssa.Instruction) bool { return x == R },
						BarrierEdge: func(from, to *ssa.BasicBlock) bool {
							return an.EdgeHolds(from, to, pred)
						}}.Find() == nil
				}
				if g {
					cands = append(cands, ph)
				}
			}
		}
	})
	if len(cands) == 0 {
		return false, "the return is not guarded by a boolean flag"
	}
	var last string
	for _, flag := range cands {
		ok, why := allFlagFor(fn, R, S, okEdge, flag)
		if ok {
			return true, why
		}
		last = why
	}
	return false, last
}

func allFlagFor(fn *ssa.Function, R ssa.Instruction, S ssa.Instruction, okEdge func(an.Rel) bool, flag *ssa.Phi) (bool, string) {
	web := map[*ssa.Phi]bool{}
	var collect func(v ssa.Value) bool
	collect = func(v ssa.Value) bool {
		switch x := v.(type) {
		case *ssa.Phi:
			if web[x] {
				return true
			}
			web[x] = true
			for _, e := range x.Edges {
				if !collect(e) {
					return false
				}
			}
			return true
		case *ssa.Const:
			return x.Value != nil
		}
		return false
	}
	if !collect(flag) {
		return false, "the flag is not a pure true/false phi web"
	}
	// Path-sensitive product search.  State: (block, value of the flag, phase).
	// Start just after S with the flag still true, for an element that does NOT
	// satisfy okEdge (phase 0: okEdge is a barrier).  When S is reached again
	// the bad element's iteration is over (phase 1: later elements may conform,
	// but must not set the flag back to true).  Branches on the flag itself are
	// pruned with the tracked value.  Reaching R is a violation.
	type st struct {
		b     *ssa.BasicBlock
		v     bool
		phase int
	}
	flagVal := func(from, to *ssa.BasicBlock, v bool) bool {
		for _, in := range to.Instrs {
			ph, ok := in.(*ssa.Phi)
			if !ok {
				break
			}
			if !web[ph] {
				continue
			}
			for i, pred := range to.Preds {
				if pred == from {
					if cst, ok := ph.Edges[i].(*ssa.Const); ok && cst.Value != nil {
						v = cst.Value.String() == "true"
					}
				}
			}
		}
		return v
	}
	seen := map[st]bool{}
	var work []st
	// scan the rest of S's block first
	scan := func(b *ssa.BasicBlock, from int, phase int) (hitR bool, nphase int) {
		nphase = phase
		for i := from; i < len(b.Instrs); i++ {
			if b.Instrs[i] == R {
				return true, nphase
			}
			if b.Instrs[i] == S {
				nphase = 1
			}
		}
		return false, nphase
	}
	sb := S.Block()
	si := 0
	for i, in := range sb.Instrs {
		if in == S {
			si = i + 1
		}
	}
	if hit, _ := scan(sb, si, 0); hit {
		return false, "an element that did not satisfy the condition reaches the guarded site directly"
	}
	push := func(b *ssa.BasicBlock, v bool, phase int) {
		for _, s := range b.Succs {
			if cnd, t, ok := an.EdgeCond(b, s); ok {
				r := an.Normalize(cnd, t)
				if phase == 0 && okEdge(r) {
					continue
				}
				if r.Op == token.ILLEGAL {
					if ph, isPhi := r.X.(*ssa.Phi); isPhi && web[ph] && r.Truth != v {
						continue // infeasible: branch on the flag contradicts its value
					}
				}
			}
			n := st{s, flagVal(b, s, v), phase}
			if !seen[n] {
				seen[n] = true
				work = append(work, n)
			}
		}
	}
	push(sb, true, 0)
	for len(work) > 0 {
		cur := work[len(work)-1]
		work = work[:len(work)-1]
		hit, nphase := scan(cur.b, 0, cur.phase)
		if hit {
			if cur.phase == 0 {
				return false, "an element that did not satisfy the condition leaves the flag true"
			}
			return false, "the flag can be set back to true after a non-conforming element was examined"
		}
		push(cur.b, cur.v, nphase)
	}
	return true, "flag web of " + fmt.Sprint(len(web)) + " phi(s); every non-conforming element clears it and nothing sets it again"
}

// ---------------------------------------------------------------------------
// O3 waiting rule in Node.getState
// ---------------------------------------------------------------------------

func ruleO3(c *an.Ctx) {
	p := c.P
	fn := c.NeedFunc(pkgCore, "(*Node).getState")
	prenodes := p.Field(pkgCore, "Node", "prenodes")
	if fn == nil || prenodes == nil {
		return
	}
	var rets []*ssa.Return
	an.Instrs(fn, func(in ssa.Instruction) {
		if r, ok := in.(*ssa.Return); ok && len(r.Results) == 1 && isState(p, an.RetVal(r, 0), "Running") {
			rets = append(rets, r)
		}
	})
	c.Floor("O3", "return Running in Node.getState", len(rets), 1)
	// prenodeLoopOK: in function g, instruction r (a return) is reached only through a loop over all
	// prenodes, and a prenode that is neither Complete nor Disabled keeps control away from r.
	prenodeLoopOK := func(g *ssa.Function, r ssa.Instruction, what string) bool {
		var rng *ssa.Range
		an.Instrs(g, func(in ssa.Instruction) {
			if x, ok := in.(*ssa.Range); ok && an.LoadsField(x.X, prenodes) {
				rng = x
			}
		})
		if rng == nil {
			return false
		}
		var S *ssa.Call
		t := an.NewTaint(0, nil)
		t.Add(rng)
		t.Run()
		an.Instrs(g, func(in ssa.Instruction) {
			if call, ok := in.(*ssa.Call); ok && call.Call.StaticCallee() == fn && len(call.Call.Args) > 0 && t.Has(call.Call.Args[0]) {
				S = call
			}
		})
		if S == nil {
			c.Undecided("O3", "prenode.getState()@"+an.FnName(g), g.Pos(), "no state query of the ranged prenode found")
			return true
		}
		ok, w := an.MustPass(g, nil, func(in ssa.Instruction) bool { return in == r },
			func(in ssa.Instruction) bool { return in == ssa.Instruction(rng) })
		c.Check("O3", "running-only-after-prenode-loop@"+an.FnName(g), r.Pos(), ok,
			what+" must be reached only through the loop over all prenodes; "+c.WitnessString(w))
		w = an.Query{Fn: g, After: S,
			Target: func(in ssa.Instruction) bool { return in == ssa.Instruction(S) || in == r },
			BarrierEdge: func(from, to *ssa.BasicBlock) bool {
				return an.EdgeHolds(from, to, func(rel an.Rel) bool {
					isS := func(v ssa.Value) bool { return v == ssa.Value(S) }
					return relEq(rel, isS, func(v ssa.Value) bool { return isState(p, v, "Complete") }) ||
						relEq(rel, isS, func(v ssa.Value) bool { return isState(p, v, "DisabledState") })
				})
			}}.Find()
		c.Check("O3", "waiting-unless-prenode-complete-or-disabled@"+an.FnName(g), S.Pos(), w == nil,
			"a prenode whose state is neither Complete nor DisabledState must keep the node from Running; "+c.WitnessString(w))
		return true
	}
	fam := familyOf(p, fn, 2)
	inFam := map[*ssa.Function]bool{}
	for _, f := range fam {
		inFam[f] = true
	}
	for _, r := range rets {
		if prenodeLoopOK(fn, r, "return Running") {
			continue
		}
		// the loop may live in a private boolean helper: return Running is then dominated by one
		// outcome of that helper, and the helper returns that outcome only after the loop
		handled := false
		for _, b := range fn.Blocks {
			for _, sc := range b.Succs {
				cnd, truth, ok := an.EdgeCond(b, sc)
				if !ok {
					continue
				}
				rel := an.Normalize(cnd, truth)
				call, isCall := rel.X.(*ssa.Call)
				if rel.Op != token.ILLEGAL || !isCall || !inFam[call.Call.StaticCallee()] || call.Call.StaticCallee() == fn {
					continue
				}
				from, to := b, sc
				if w := (an.Query{Fn: fn, Target: func(in ssa.Instruction) bool { return in == ssa.Instruction(r) },
					BarrierEdge: func(f, t *ssa.BasicBlock) bool { return f == from && t == to }}).Find(); w != nil {
					continue // this edge does not guard the return
				}
				h := call.Call.StaticCallee()
				an.Instrs(h, func(in ssa.Instruction) {
					hr, ok := in.(*ssa.Return)
					if !ok || len(hr.Results) != 1 {
						return
					}
					cv, isC := an.ConstVal(an.RetVal(hr, 0))
					if isC && cv.String() == fmt.Sprint(rel.Truth) {
						if prenodeLoopOK(h, hr, fmt.Sprintf("return %v (which lets the caller return Running)", rel.Truth)) {
							handled = true
						}
					} else if !isC {
						c.Undecided("O3", "prenode-helper-result@"+an.FnName(h), hr.Pos(), "the helper guarding return Running returns a computed boolean; not interpreted")
						handled = true
					}
				})
			}
		}
		if !handled {
			c.Undecided("O3", "range(self.prenodes)@(*Node).getState", fn.Pos(), "no range over Node.prenodes found, neither in getState nor in a private helper guarding return Running")
		}
	}
}

// ---------------------------------------------------------------------------
// O4 dependency sources reach the prenode set
// ---------------------------------------------------------------------------

func ruleO4(c *an.Ctx) {
	p := c.P
	prenodes := p.Field(pkgCore, "Node", "prenodes")
	setPost := c.NeedFunc(pkgCore, "(*Node).setPostNode")
	if prenodes == nil || setPost == nil {
		return
	}
	fns := coreFns(c)
	inCore := func(f *ssa.Function) bool {
		return f.Pkg != nil && f.Pkg.Pkg.Path() == corePath
	}
	type src struct {
		method string
		roots  []string // functions (constructor phase) where the accessor must be consumed
	}
	srcs := []src{
		{"ResolvedInputs", []string{"(*Node).makePrenodes"}},
		{"Disabled", []string{"(*Node).makePrenodes"}},
		{"ResolvedOutputs", []string{"(*Node).makeReturnBindings"}},
	}
	for _, s := range srcs {
		for _, rootName := range s.roots {
			root := c.NeedFunc(pkgCore, rootName)
			if root == nil {
				continue
			}
			t := an.NewTaint(3, inCore)
			t.IndexFields(fns)
			t.CallSites = func(f *ssa.Function) []ssa.CallInstruction {
				var out []ssa.CallInstruction
				for caller, sites := range p.Callers(f) {
					if inCore(caller) {
						out = append(out, sites...)
					}
				}
				return out
			}
			n := 0
			// the accessor may be consulted, and the prenode set filled, in private helpers of the constructor
			fam := familyOf(p, root, 2)
			inFamO4 := map[*ssa.Function]bool{}
			for _, m := range fam {
				inFamO4[m] = true
				an.Instrs(m, func(in ssa.Instruction) {
					call, ok := in.(*ssa.Call)
					if !ok || !call.Call.IsInvoke() || call.Call.Method.Name() != s.method {
						return
					}
					if !isCallGraphNode(call.Call.Value.Type()) {
						return
					}
					n++
					t.AddSource(call)
				})
			}
			key := "dep-source(" + s.method + ")@" + rootName
			if n == 0 {
				c.Fail("O4", key, root.Pos(), "the constructor no longer consults CallGraphNode."+s.method+"(): the calls it depends on through it would not become prenodes")
				continue
			}
			t.Run()
			reachedPrenodes, reachedPost := false, false
			for sink := range t.Sinks {
				// any store into Node.prenodes the references flow to (the taint starts at this constructor's
				// accessor calls only, so a reached store is a genuine flow, whichever helper performs it)
				if mu, ok := sink.(*ssa.MapUpdate); ok && an.LoadsField(mu.Map, prenodes) {
					reachedPrenodes = true
				}
			}
			for _, m := range fns {
				for _, call := range callsTo(m, setPost) {
					for _, a := range call.Common().Args {
						if t.Has(a) {
							reachedPost = true
						}
					}
				}
			}
			_ = inFamO4
			c.Check("O4", key+":reaches-prenodes", root.Pos(), reachedPrenodes,
				"references found through "+s.method+"() must flow into the store into Node.prenodes")
			c.Check("O4", key+":reaches-postnodes", root.Pos(), reachedPost,
				"references found through "+s.method+"() must flow into setPostNode (so the dependency is re-examined when the producer finishes)")
		}
	}
	// makePrenodes / makeReturnBindings are invoked from the constructors
	for _, e := range []struct{ fn, caller string }{
		{"(*Node).makePrenodes", "NewNode"}, {"(*Node).makeReturnBindings", "NewPipestance"}} {
		fn := c.NeedFunc(pkgCore, e.fn)
		if fn == nil {
			continue
		}
		got := effectiveCallers(p, fn, []string{e.caller})
		has := false
		for _, g := range got {
			if g == e.caller {
				has = true
			}
		}
		c.Check("O4", "constructed("+e.fn+" called from "+e.caller+")", fn.Pos(), has, fmt.Sprintf("callers: %v", got))
	}
	// the disabling conditions are EXPRESSIONS: a flag that reaches the call through a mapped call arrives
	// wrapped (SplitExp, array, merge), so its producers are found only by enumerating the references inside
	// the entry.  Every iteration over CallGraphNode.Disabled() in the prenode constructors passes an
	// enumerator call (FindRefs / FindTypedRefs) on the element; taking the element itself for a reference
	// (a type assertion to *RefExp) misses the wrapped ones and the call starts before its flag is known.
	if mp := c.NeedFunc(pkgCore, "(*Node).makePrenodes"); mp != nil {
		nLoops := 0
		for _, m := range familyOf(p, mp, 2) {
			for hd, body := range naturalLoops(m) {
				// a loop whose element comes from Disabled()
				overDisabled := false
				for b := range body {
					for _, in := range b.Instrs {
						if ia, ok := in.(*ssa.IndexAddr); ok {
							if cl, ok := an.Strip(ia.X).(*ssa.Call); ok && cl.Call.IsInvoke() && cl.Call.Method.Name() == "Disabled" {
								overDisabled = true
							}
						}
					}
				}
				if !overDisabled {
					continue
				}
				nLoops++
				enum := func(in ssa.Instruction) bool {
					cl, ok := in.(*ssa.Call)
					if !ok {
						return false
					}
					if cl.Call.IsInvoke() {
						return strings.HasPrefix(cl.Call.Method.Name(), "Find") && strings.Contains(cl.Call.Method.Name(), "Refs")
					}
					f := cl.Call.StaticCallee()
					return f != nil && strings.HasPrefix(f.Name(), "Find") && strings.Contains(f.Name(), "Refs")
				}
				first := hd.Instrs[0]
				w := an.Query{Fn: m, After: first, Target: func(in ssa.Instruction) bool { return in == first }, Barrier: enum,
					BarrierEdge: func(from, to *ssa.BasicBlock) bool { return !body[to] }}.Find()
				c.Check("O4", "disabling-conditions-enumerated-for-references@"+an.FnName(m), first.Pos(), w == nil,
					"an iteration over the call's disabling conditions completes without enumerating the references inside the entry (FindRefs): a flag that arrives wrapped in a split/array/merge expression contributes no prenode and the job is submitted before the stage producing its disabling condition has finished; "+c.WitnessString(w))
			}
		}
		c.Floor("O4", "loops over Disabled() in makePrenodes", nLoops, 1)
	}
	// fork roots: makePrenodesForBinding consults bind.Exp.FindRefs() too
	mpb := c.NeedFunc(pkgCore, "(*Node).makePrenodesForBinding")
	if mpb != nil {
		nExp, nBind := 0, 0
		// in the function or in the private helpers it was split into
		for _, m := range familyOf(p, mpb, 2) {
			an.Instrs(m, func(in ssa.Instruction) {
				call, ok := in.(*ssa.Call)
				if !ok {
					return
				}
				if call.Call.IsInvoke() && call.Call.Method.Name() == "FindRefs" {
					nExp++
				} else if f := call.Call.StaticCallee(); f != nil && f.Name() == "FindRefs" {
					nBind++
				}
			})
		}
		c.Check("O4", "fork-roots(Exp.FindRefs and ResolvedBinding.FindRefs)@(*Node).makePrenodesForBinding", mpb.Pos(), nExp >= 1 && nBind >= 1,
			fmt.Sprintf("both the typed references and the raw expression references (fork roots) must be collected (typed=%d raw=%d)", nBind, nExp))
		// the raw-reference pass is unconditional: every path that returns passes bind.Exp.FindRefs(),
		// and its elements are inserted into a map (the prenode set)
		isRaw := func(in ssa.Instruction) bool {
			call, ok := in.(*ssa.Call)
			return ok && call.Call.IsInvoke() && call.Call.Method.Name() == "FindRefs"
		}
		w := an.Query{Fn: mpb, Target: func(in ssa.Instruction) bool { _, ok := in.(*ssa.Return); return ok }, Barrier: isRaw}.Find()
		c.Check("O4", "fork-roots(raw pass unconditional)@(*Node).makePrenodesForBinding", mpb.Pos(), w == nil,
			"every returning path must collect the raw expression references: a call mapped over or disabled by a reference that contributes no typed value still has to wait for it; "+c.WitnessString(w))
		inserted := false
		an.Instrs(mpb, func(in ssa.Instruction) {
			mu, ok := in.(*ssa.MapUpdate)
			if !ok {
				return
			}
			sl := newSlice(mpb)
			sl.add(mu.Key)
			for v := range sl.seen {
				if ci, ok := v.(ssa.Instruction); ok && isRaw(ci) {
					inserted = true
				}
			}
		})
		if !inserted {
			// the FindRefs() result may be handed to a helper that performs the insertion
			an.Instrs(mpb, func(in ssa.Instruction) {
				call, ok := in.(*ssa.Call)
				if !ok {
					return
				}
				h := call.Call.StaticCallee()
				if h == nil || h.Blocks == nil || h.Pkg != mpb.Pkg {
					return
				}
				for i, a := range call.Call.Args {
					ai, isI := a.(ssa.Instruction)
					if !isI || !isRaw(ai) || i >= len(h.Params) {
						continue
					}
					prm := h.Params[i]
					an.Instrs(h, func(hin ssa.Instruction) {
						mu, ok := hin.(*ssa.MapUpdate)
						if !ok {
							return
						}
						sl := newSlice(h)
						sl.add(mu.Key)
						if sl.seen[prm] {
							inserted = true
						}
					})
				}
			})
		}
		c.Check("O4", "fork-roots(raw refs inserted)@(*Node).makePrenodesForBinding", mpb.Pos(), inserted,
			"the nodes named by the raw expression references must be inserted into the prenode set (a map update whose key derives from the FindRefs() result)")
	}
}

func isCallGraphNode(t types.Type) bool {
	n, ok := t.(*types.Named)
	return ok && n.Obj().Name() == "CallGraphNode"
}

// ---------------------------------------------------------------------------
// O5 preflight
// ---------------------------------------------------------------------------

func ruleO5(c *an.Ctx) {
	p := c.P
	newPS := c.NeedFunc(pkgCore, "NewPipestance")
	setPre := c.NeedFunc(pkgCore, "(*Node).setPrenode")
	setPost := c.NeedFunc(pkgCore, "(*Node).setPostNode")
	subnodes := p.Field(pkgCore, "Node", "subnodes")
	prenodes := p.Field(pkgCore, "Node", "prenodes")
	preflight := p.Field(pkgSyntax, "Modifiers", "Preflight")
	if newPS == nil || setPre == nil || setPost == nil || subnodes == nil || prenodes == nil || preflight == nil {
		c.Undecided("anchor", "O5 anchors", token.NoPos, "NewPipestance/setPrenode/Node.subnodes/Modifiers.Preflight not found")
		return
	}
	isPreflightLoad := func(v ssa.Value) bool { return an.LoadsField(v, preflight) }
	// (a) every sub-node iteration either calls setPrenode or the sub-node is itself a preflight.
	// The wiring loop may live in a private helper of NewPipestance.
	// fromPreflightList: v derives, inside g, from an append guarded by Modifiers.Preflight == true
	fromPreflightList := func(g *ssa.Function, v ssa.Value) bool {
		found := false
		an.Instrs(g, func(in ssa.Instruction) {
			if cl, ok := in.(*ssa.Call); ok {
				if _, isApp := an.IsBuiltinCall(cl, "append"); isApp {
					gd, _ := an.GuardedBy(cl, func(r an.Rel) bool { return r.Op == token.ILLEGAL && r.Truth && isPreflightLoad(r.X) })
					if gd {
						t := an.NewTaint(0, nil)
						t.Add(cl)
						t.Run()
						if t.Has(v) {
							found = true
						}
					}
				}
			}
		})
		return found
	}
	nSites := 0
	for _, host := range familyOf(p, newPS, 2) {
		host := host
		if host == setPre {
			continue // the recursion inside setPrenode is rule (b)
		}
		sites := callsTo(host, setPre)
		nSites += len(sites)
		for _, s := range sites {
			call := s.(*ssa.Call)
			// receiver derives from a range over subnodes
			var nxt *ssa.Next
			an.Instrs(host, func(in ssa.Instruction) {
				if n, ok := in.(*ssa.Next); ok {
					if r, ok := n.Iter.(*ssa.Range); ok && an.LoadsField(r.X, subnodes) {
						t := an.NewTaint(0, nil)
						t.Add(n)
						t.Run()
						if t.Has(call.Call.Args[0]) {
							nxt = n
						}
					}
				}
			})
			where := "@" + an.FnName(host)
			if nxt == nil {
				c.Fail("O5", "preflight-prenode(loop over all subnodes)"+where, call.Pos(), "setPrenode(preflight) is not applied inside a loop over all sub-nodes")
				continue
			}
			w := an.Query{Fn: host, After: nxt,
				Target:  func(in ssa.Instruction) bool { return in == ssa.Instruction(nxt) },
				Barrier: func(in ssa.Instruction) bool { return in == ssa.Instruction(call) },
				BarrierEdge: func(from, to *ssa.BasicBlock) bool {
					cnd, t, ok := an.EdgeCond(from, to)
					if !ok {
						return false
					}
					if ex, isEx := cnd.(*ssa.Extract); isEx && ex.Tuple == ssa.Value(nxt) && ex.Index == 0 && !t {
						return true // loop exit: not an iteration
					}
					r := an.Normalize(cnd, t)
					return r.Op == token.ILLEGAL && r.Truth && isPreflightLoad(r.X)
				}}.Find()
			c.Check("O5", "preflight-prenode(every non-preflight subnode)"+where, call.Pos(), w == nil,
				"every sub-node that is not itself a preflight must get the preflight node as prenode; "+c.WitnessString(w))
			// the prenode argument comes from the collection of preflight stages: an append guarded by
			// Preflight==true, in this function or - through a parameter - in its caller
			okSrc := len(call.Call.Args) > 1 && fromPreflightList(host, call.Call.Args[1])
			if !okSrc && len(call.Call.Args) > 1 {
				sl := newSlice(host)
				sl.add(call.Call.Args[1])
				for v := range sl.seen {
					// range element of a parameter: Next/Extract are not followed by the slice; look at ranges too
					_ = v
				}
				for i, prm := range host.Params {
					t := an.NewTaint(0, nil)
					t.Add(prm)
					t.Run()
					if !t.Has(call.Call.Args[1]) {
						continue
					}
					for caller, csites := range p.Callers(host) {
						for _, cs := range csites {
							if i < len(cs.Common().Args) && fromPreflightList(caller, cs.Common().Args[i]) {
								okSrc = true
							}
						}
					}
				}
			}
			c.Check("O5", "preflight-prenode(argument is a preflight stage)"+where, call.Pos(), okSrc,
				"the prenode handed to setPrenode must come from the list of stages collected under Modifiers.Preflight")
		}
	}
	c.Floor("O5", "setPrenode calls in NewPipestance or its private helpers", nSites, 1)
	// (b) setPrenode recurses into every sub-node and records the edge both ways
	var nxt *ssa.Next
	an.Instrs(setPre, func(in ssa.Instruction) {
		if n, ok := in.(*ssa.Next); ok {
			if r, ok := n.Iter.(*ssa.Range); ok && an.LoadsField(r.X, subnodes) {
				nxt = n
			}
		}
	})
	if nxt == nil {
		c.Fail("O5", "setPrenode-recursion@(*Node).setPrenode", setPre.Pos(), "setPrenode does not range over self.subnodes: calls inside enclosed pipelines would not wait for the preflight")
	} else {
		w := an.Query{Fn: setPre, After: nxt,
			Target: func(in ssa.Instruction) bool { return in == ssa.Instruction(nxt) || an.IsReturn(in) },
			Barrier: func(in ssa.Instruction) bool {
				return an.CalleeIs(in, setPre)
			},
			BarrierEdge: func(from, to *ssa.BasicBlock) bool {
				// loop exit edge (ok == false) is not an iteration
				cnd, t, ok := an.EdgeCond(from, to)
				if !ok {
					return false
				}
				if ex, isEx := cnd.(*ssa.Extract); isEx && ex.Tuple == ssa.Value(nxt) && ex.Index == 0 && !t {
					return true
				}
				return false
			}}.Find()
		c.Check("O5", "setPrenode-recursion@(*Node).setPrenode", nxt.Pos(), w == nil,
			"setPrenode must call itself for every sub-node (enclosed pipelines inherit the preflight dependency); "+c.WitnessString(w))
	}
	// the store and the registration, directly or in a helper that receives the prenode and does
	// them on every path (round-9 refactoring: addPrenode(id, node))
	storesPrenode := func(host *ssa.Function, val ssa.Value) func(in ssa.Instruction) bool {
		return func(in ssa.Instruction) bool {
			mu, ok := in.(*ssa.MapUpdate)
			if !ok || mu.Value != val {
				return false
			}
			if an.LoadsField(mu.Map, prenodes) {
				return true
			}
			// a fresh map literal holding the prenode that becomes self.prenodes
			if _, fresh := an.Strip(mu.Map).(*ssa.MakeMap); fresh {
				for _, st := range an.StoresToField(host, prenodes) {
					if an.Strip(st.Val) == an.Strip(mu.Map) {
						return true
					}
				}
			}
			// a phi of the existing map and a fresh one (lazily allocated)
			if ph, isPhi := mu.Map.(*ssa.Phi); isPhi {
				for _, e := range ph.Edges {
					if an.LoadsField(e, prenodes) {
						return true
					}
				}
			}
			return false
		}
	}
	viaHelper := func(direct func(host *ssa.Function, val ssa.Value) func(ssa.Instruction) bool) func(in ssa.Instruction) bool {
		return func(in ssa.Instruction) bool {
			if direct(setPre, ssa.Value(setPre.Params[1]))(in) {
				return true
			}
			cl := an.AsCallAny(in)
			if cl == nil {
				return false
			}
			h := cl.Common().StaticCallee()
			if h == nil || h.Blocks == nil || h.Pkg != setPre.Pkg || h == setPre {
				return false
			}
			for i, a := range cl.Common().Args {
				if an.Strip(a) == ssa.Value(setPre.Params[1]) && i < len(h.Params) {
					ok, _ := an.MustPass(h, nil, an.IsReturn, direct(h, ssa.Value(h.Params[i])))
					if ok {
						return true
					}
				}
			}
			return false
		}
	}
	okMap, _ := an.MustPass(setPre, nil, an.IsReturn, viaHelper(storesPrenode))
	c.Check("O5", "setPrenode-stores-prenode@(*Node).setPrenode", setPre.Pos(), okMap, "setPrenode must store the prenode into self.prenodes on every path")
	okPost, _ := an.MustPass(setPre, nil, an.IsReturn, viaHelper(func(host *ssa.Function, val ssa.Value) func(ssa.Instruction) bool {
		return func(in ssa.Instruction) bool { return an.CalleeIs(in, setPost) }
	}))
	c.Check("O5", "setPrenode-registers-postnode@(*Node).setPrenode", setPre.Pos(), okPost, "setPrenode must register self as post-node of the prenode on every path")
}

// ---------------------------------------------------------------------------
// O6 merges without a fork node
// ---------------------------------------------------------------------------

// A MergeExp over a mapped call whose fork count is only known at run time names, in ForkNode, a
// stage whose forks give the count; ForkNode == nil means "the mapped call itself" (the runtime
// falls back to MergeExp.Call in TopNode.resolveMerge, and the resolver normalises a fork node equal
// to the call to nil).  (*MergeExp).FindRefs - what the scheduler builds prenodes from - reports the
// fork node only when it is non-nil.  Necessary condition: the nil case is accounted for on the
// scheduling side too: either FindRefs itself adds a reference derived from MergeExp.Call, or a
// function of package core reachable from makePrenodesForBinding tests MergeExp.ForkNode against nil
// and reads MergeExp.Call.
func ruleO6(c *an.Ctx) {
	p := c.P
	forkNode := p.Field(pkgSyntax, "MergeExp", "ForkNode")
	callF := p.Field(pkgSyntax, "MergeExp", "Call")
	fr := c.NeedFunc(pkgSyntax, "(*MergeExp).FindRefs")
	mpb := c.NeedFunc(pkgCore, "(*Node).makePrenodesForBinding")
	if forkNode == nil || callF == nil || fr == nil || mpb == nil {
		if forkNode == nil || callF == nil {
			c.Undecided("O6", "anchor(MergeExp.ForkNode/Call)", token.NoPos, "field not found")
		}
		return
	}
	readsField := func(fn *ssa.Function, f *types.Var) bool {
		hit := false
		an.Instrs(fn, func(in ssa.Instruction) {
			switch x := in.(type) {
			case *ssa.FieldAddr:
				if _, g := an.FieldOfAddr(x); g == f {
					hit = true
				}
			case *ssa.Field:
				if _, g := an.FieldLoad(x); g == f {
					hit = true
				}
			}
		})
		return hit
	}
	nilTests := func(fn *ssa.Function, f *types.Var) bool {
		hit := false
		an.Instrs(fn, func(in ssa.Instruction) {
			b, ok := in.(*ssa.BinOp)
			if !ok || (b.Op != token.EQL && b.Op != token.NEQ) {
				return
			}
			if (an.LoadsField(b.X, f) && an.IsNil(b.Y)) || (an.LoadsField(b.Y, f) && an.IsNil(b.X)) {
				hit = true
			}
		})
		return hit
	}
	// the runtime fallback exists (otherwise nil has no meaning and this rule does not apply)
	runtimeFallback := []string{}
	for _, fn := range p.FuncsOf(pkgCore) {
		if nilTests(fn, forkNode) {
			runtimeFallback = append(runtimeFallback, an.FnName(fn))
		}
	}
	sort.Strings(runtimeFallback)
	c.Floor("O6", "functions of package core that test MergeExp.ForkNode against nil", len(runtimeFallback), 1)
	// (a) FindRefs adds something derived from Call
	frHandles := false
	an.Instrs(fr, func(in ssa.Instruction) {
		call, ok := in.(*ssa.Call)
		if !ok {
			return
		}
		if args, isApp := an.IsBuiltinCall(call, "append"); isApp && len(args) == 2 {
			sl := newSlice(fr)
			sl.add(args[1])
			if v := storedElem(args[1]); v != nil {
				sl.add(v)
			}
			for v := range sl.seen {
				if fa, ok := v.(*ssa.FieldAddr); ok {
					if _, g := an.FieldOfAddr(fa); g == callF {
						frHandles = true
					}
				}
			}
		}
	})
	// (b) the scheduler side handles it
	corePath := an.ModPath + pkgCore
	seen := map[*ssa.Function]bool{}
	var handler string
	var walk func(fn *ssa.Function, d int)
	walk = func(fn *ssa.Function, d int) {
		if fn == nil || seen[fn] || d > 4 || fn.Pkg == nil || fn.Pkg.Pkg.Path() != corePath {
			return
		}
		seen[fn] = true
		if nilTests(fn, forkNode) && readsField(fn, callF) {
			handler = an.FnName(fn)
		}
		an.Instrs(fn, func(in ssa.Instruction) {
			if cl := an.AsCallAny(in); cl != nil {
				walk(cl.Common().StaticCallee(), d+1)
			}
		})
		for _, a := range fn.AnonFuncs {
			walk(a, d+1)
		}
	}
	walk(mpb, 0)
	c.Check("O6", "merge-without-fork-node-becomes-prenode@(*Node).makePrenodesForBinding", mpb.Pos(), frHandles || handler != "",
		fmt.Sprintf("a merge over a run-time fork count with ForkNode == nil takes its forks from MergeExp.Call (runtime fallback in %v); (*MergeExp).FindRefs reports nothing for that case (adds Call-derived reference: %v) and no function reachable from makePrenodesForBinding handles it (handler: %q): the consumer gets no prenode for the mapped call and starts before it has finished", runtimeFallback, frHandles, handler))
}
