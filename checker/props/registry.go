// Package props holds one file per claimed property.
package props

import (
	"bytes"
	"encoding/json"
	"fmt"
	"os"
	"os/exec"
	"path/filepath"
	"sort"
	"strings"
	"sync"

	"mrocheck/an"

	"golang.org/x/tools/go/ssa"
)

type Entry struct {
	Run         func(c *an.Ctx)
	Explanation string
	Assumptions []string
}

var Registry = map[string]Entry{}

const (
	pkgCore   = "martian/core"
	pkgSyntax = "martian/syntax"
	pkgUtil   = "martian/util"
	pkgMrp    = "cmd/mrp"
	pkgMrjob  = "cmd/mrjob"
	pkgRefac  = "martian/syntax/refactoring"

	corePath   = an.ModPath + pkgCore
	syntaxPath = an.ModPath + pkgSyntax
	utilPath   = an.ModPath + pkgUtil
)

var commonAssumptions = []string{
	"Go semantics of defer, sync.Mutex and map iteration as specified by the language and standard library",
	"golang.org/x/tools go/ssa faithfully represents the type-checked source; VTA over CHA is a sound call graph for the calls the rules follow (all anchored calls are static today)",
	"each rule is a structural necessary condition of the property, not the behaviour itself (see DESIGN.md section of the property for what is not covered)",
}

// Dump prints the SSA of "pkg:func" for debugging rules.
func Dump(p *an.Prog, spec string) {
	parts := strings.SplitN(spec, ":", 2)
	if len(parts) != 2 {
		fmt.Println("want pkg:func")
		return
	}
	fn := p.Func(parts[0], parts[1])
	if fn == nil {
		fmt.Println("not found")
		return
	}
	for _, g := range an.WithAnon(fn) {
		g.WriteTo(os.Stdout)
	}
}

// ---------------------------------------------------------------------------
// Self-test: overlay mutants, each analysed in a child process.
// ---------------------------------------------------------------------------

type Mutant struct {
	Name       string
	Property   string
	File       string // relative to repo
	Old, New   string // textual patch; Old must occur exactly once
	Old2, New2 string // optional second hunk in the same file (e.g. an import)
	Expect     string // rule prefix that must report a violation/undecided
	All        bool   // Old occurs several times (sibling arms with identical text): replace every occurrence
}

var Mutants []Mutant

type MutantResult struct {
	Name   string `json:"name"`
	Expect string `json:"expect_rule"`
	Result string `json:"result"` // FIRED | MISSED | SKIPPED
	Detail string `json:"detail,omitempty"`
}

// ApplyMutant builds the overlay for a mutant; ok=false when the context is
// not found exactly once (the tree was edited; mutant skipped).
func ApplyMutant(repo string, m Mutant) (map[string][]byte, bool) {
	path := filepath.Join(repo, m.File)
	src, err := os.ReadFile(path)
	if err != nil {
		return nil, false
	}
	if n := bytes.Count(src, []byte(m.Old)); n != 1 && !(m.All && n > 1) {
		return nil, false
	}
	out := bytes.Replace(src, []byte(m.Old), []byte(m.New), 1)
	if m.All {
		out = bytes.ReplaceAll(src, []byte(m.Old), []byte(m.New))
	}
	if m.Old2 != "" {
		if bytes.Count(out, []byte(m.Old2)) != 1 {
			return nil, false
		}
		out = bytes.Replace(out, []byte(m.Old2), []byte(m.New2), 1)
	}
	return map[string][]byte{path: out}, true
}

func FindMutant(name string) (Mutant, bool) {
	for _, m := range Mutants {
		if m.Name == name {
			return m, true
		}
	}
	return Mutant{}, false
}

// RunMutantChild is executed in the child process: analyse the mutated
// overlay and print the non-discharged obligations as JSON.
func RunMutantChild(repo string, m Mutant) int {
	ov, ok := ApplyMutant(repo, m)
	if !ok {
		fmt.Println(`{"skipped":true}`)
		return 0
	}
	p, err := an.Load(repo, ov)
	if err != nil {
		b, _ := json.Marshal(map[string]interface{}{"loaderror": err.Error()})
		fmt.Println(string(b))
		return 0
	}
	c := an.NewCtx(p, m.Property, "quick")
	Registry[m.Property].Run(c)
	var bad []an.Obligation
	for _, o := range c.Obs {
		if o.Status == an.Violation || o.Status == an.Undecided {
			bad = append(bad, o)
		}
	}
	b, _ := json.Marshal(map[string]interface{}{"bad": bad})
	fmt.Println(string(b))
	return 0
}

// SelfTest runs all mutants of a property, at most 4 children at a time.
func SelfTest(prop, repo, verif string) []MutantResult {
	var ms []Mutant
	for _, m := range Mutants {
		if m.Property == prop {
			ms = append(ms, m)
		}
	}
	sort.Slice(ms, func(i, j int) bool { return ms[i].Name < ms[j].Name })
	res := make([]MutantResult, len(ms))
	sem := make(chan struct{}, 4)
	var wg sync.WaitGroup
	self, _ := os.Executable()
	for i, m := range ms {
		wg.Add(1)
		go func(i int, m Mutant) {
			defer wg.Done()
			sem <- struct{}{}
			defer func() { <-sem }()
			r := MutantResult{Name: m.Name, Expect: m.Expect}
			cmd := exec.Command(self, "-mutant", m.Name, "-repo", repo)
			cmd.Env = append(os.Environ(), "GOMAXPROCS=4")
			out, err := cmd.Output()
			if err != nil {
				r.Result, r.Detail = "MISSED", "child failed: "+err.Error()
				res[i] = r
				return
			}
			var parsed struct {
				Skipped   bool            `json:"skipped"`
				LoadError string          `json:"loaderror"`
				Bad       []an.Obligation `json:"bad"`
			}
			lines := strings.Split(strings.TrimSpace(string(out)), "\n")
			json.Unmarshal([]byte(lines[len(lines)-1]), &parsed)
			// violations listed as known findings exist on the unchanged tree too: they say nothing about the mutant
			if known, err := an.LoadKnown(filepath.Join(verif, "known_findings.json")); err == nil {
				var kept []an.Obligation
				for _, o := range parsed.Bad {
					isKnown := false
					for _, f := range known.Findings {
						if f.Property == prop && f.Key == o.Key && o.Status == an.Violation {
							isKnown = true
						}
					}
					if !isKnown {
						kept = append(kept, o)
					}
				}
				parsed.Bad = kept
			}
			switch {
			case parsed.Skipped:
				r.Result, r.Detail = "SKIPPED", "patch context not found exactly once in the current tree"
			case parsed.LoadError != "":
				r.Result, r.Detail = "MISSED", "mutant does not type-check: "+parsed.LoadError
			case m.Expect == "":
				// behaviour-preserving variant: the checker must stay silent
				if len(parsed.Bad) == 0 {
					r.Result = "SILENT"
				} else {
					r.Result = "MISSED"
					r.Detail = "false alarm on a behaviour-preserving variant: " + parsed.Bad[0].Key
				}
			default:
				r.Result = "MISSED"
				for _, o := range parsed.Bad {
					if strings.HasPrefix(o.Rule, m.Expect) {
						r.Result = "FIRED"
						r.Detail = o.Key + " at " + o.Where
						break
					}
				}
				if r.Result == "MISSED" {
					r.Detail = fmt.Sprintf("%d other reports", len(parsed.Bad))
				}
			}
			res[i] = r
		}(i, m)
	}
	wg.Wait()
	return res
}

// ---------------------------------------------------------------------------
// small shared helpers
// ---------------------------------------------------------------------------

func coreFns(c *an.Ctx) []*ssa.Function { return c.P.FuncsOf(pkgCore) }

func short(s string, n int) string {
	if len(s) <= n {
		return s
	}
	return s[:n] + "…"
}
