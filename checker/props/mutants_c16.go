package props

func init() {
	Mutants = append(Mutants,
		Mutant{Name: "c16-decode-through-interface", Property: "C16", File: "martian/core/runtime.go",
			Old: "\t\t\tif err := json.Unmarshal(val, &jv); err != nil {\n\t\t\t\treturn nil, err\n\t\t\t}\n",
			New: "\t\t\tif err := json.Unmarshal(val, &jv); err != nil {\n\t\t\t\treturn nil, err\n\t\t\t}\n\t\t\tvar probe map[string]interface{}\n\t\t\tif err := json.Unmarshal(val, &probe); err != nil {\n\t\t\t\treturn nil, err\n\t\t\t}\n", Expect: "I1"},
		Mutant{Name: "c16-split-key-mismatch", Property: "C16", File: "martian/core/runtime.go",
			Old: "Split json.RawMessage `json:\"split\"`", New: "Split json.RawMessage `json:\"sweep\"`", Expect: "I2"},
		Mutant{Name: "c16-every-arg-listed-as-split", Property: "C16", File: "martian/core/runtime.go",
			Old: "\t\tif _, ok := binding.Exp.(*syntax.SplitExp); ok {\n\t\t\tsplitargs = append(splitargs, binding.Id)\n\t\t}\n", New: "\t\tsplitargs = append(splitargs, binding.Id)\n", Expect: "I3"},
		Mutant{Name: "c16-split-status-not-restored", Property: "C16", File: "martian/core/runtime.go",
			Old: "\t\t\t\tbinding.Exp = s\n", New: "\t\t\t\t_ = s\n", Expect: "I3"},
		Mutant{Name: "c16-invocation-of-unforked-inputs", Property: "C16", File: "martian/core/stage.go",
			Old: "splitArgs, argBindings, err := self.node.resolveInputs(self.forkId, true)", New: "splitArgs, argBindings, err := self.node.resolveInputs(nil, true)", Expect: "I4"},
		Mutant{Name: "c16-benign-named-split-struct", Property: "C16", File: "martian/core/runtime.go",
			Old: "\t\t\tvar jv struct {\n\t\t\t\tSplit json.RawMessage `json:\"split\"`\n\t\t\t}\n", New: "\t\t\ttype splitValue struct {\n\t\t\t\tSplit json.RawMessage `json:\"split\"`\n\t\t\t}\n\t\t\tvar jv splitValue\n", Expect: ""},
	)
}
