package props

// Mutants for the rules added after the third seeding round (seeds disguised as refactorings).
func init() {
	Mutants = append(Mutants,
		Mutant{Name: "c19-self-rename-stops-at-wildcard", Property: "C19", File: "martian/syntax/refactoring/rename_input_param.go",
			Old: "\t\tfor _, binding := range call.Bindings.List {\n\t\t\tif binding.Exp.HasRef() {\n\t\t\t\tedits = updateSelfRefsFromBinding(edits, binding, pipe, call,\n\t\t\t\t\toldName, newName, false)",
			New: "\t\tfor _, binding := range call.Bindings.List {\n\t\t\tif binding.Id == \"*\" {\n\t\t\t\tbreak\n\t\t\t}\n\t\t\tif binding.Exp.HasRef() {\n\t\t\t\tedits = updateSelfRefsFromBinding(edits, binding, pipe, call,\n\t\t\t\t\toldName, newName, false)", Expect: "G7"},
		Mutant{Name: "c19-self-rename-skips-last-binding", Property: "C19", File: "martian/syntax/refactoring/rename_input_param.go",
			Old: "\t\tfor _, binding := range call.Bindings.List {\n\t\t\tif binding.Exp.HasRef() {\n\t\t\t\tedits = updateSelfRefsFromBinding(edits, binding, pipe, call,\n\t\t\t\t\toldName, newName, false)",
			New: "\t\tfor _, binding := range call.Bindings.List[:len(call.Bindings.List)-1] {\n\t\t\tif binding.Exp.HasRef() {\n\t\t\t\tedits = updateSelfRefsFromBinding(edits, binding, pipe, call,\n\t\t\t\t\toldName, newName, false)", Expect: "G7"},
		Mutant{Name: "c19-benign-self-rename-continue", Property: "C19", File: "martian/syntax/refactoring/rename_input_param.go",
			Old: "\t\tfor _, binding := range call.Bindings.List {\n\t\t\tif binding.Exp.HasRef() {\n\t\t\t\tedits = updateSelfRefsFromBinding(edits, binding, pipe, call,\n\t\t\t\t\toldName, newName, false)\n\t\t\t}\n",
			New: "\t\tfor _, binding := range call.Bindings.List {\n\t\t\tif !binding.Exp.HasRef() {\n\t\t\t\tcontinue\n\t\t\t}\n\t\t\t{\n\t\t\t\tedits = updateSelfRefsFromBinding(edits, binding, pipe, call,\n\t\t\t\t\toldName, newName, false)\n\t\t\t}\n", Expect: ""},
		Mutant{Name: "c09-volatile-keyword-not-in-using-guard", Property: "C09", File: "martian/syntax/format_callable.go",
			Old: "\t\tself.Modifiers.Local || self.Modifiers.Preflight || self.Modifiers.Volatile) {",
			New: "\t\tself.Modifiers.Local || self.Modifiers.Preflight) {", Expect: "Q5"},
		Mutant{Name: "c09-pipeline-retain-only-with-calls", Property: "C09", File: "martian/syntax/format_callable.go",
			Old: "\tself.Ret.format(printer)\n\tif self.Retain != nil {",
			New: "\tself.Ret.format(printer)\n\tif len(self.Calls) > 0 && self.Retain != nil {", Expect: "Q6"},
		Mutant{Name: "c09-benign-nil-pipeline-format", Property: "C09", File: "martian/syntax/format_callable.go",
			Old: "\tself.Ret.format(printer)\n\tif self.Retain != nil {",
			New: "\tself.Ret.format(printer)\n\tif r := self.Retain; r != nil {", Expect: ""},
		Mutant{Name: "c07-split-ref-unwraps-map-before-array", Property: "C07", File: "martian/syntax/types.go",
			Old: "\t\t} else if tname.ArrayDim > 0 {\n\t\t\ttname.ArrayDim--\n\t\t} else if tname.MapDim > 0 {\n\t\t\ttname.ArrayDim = tname.MapDim - 1\n\t\t\ttname.MapDim = 0\n\t\t} else {",
			New: "\t\t} else if tname.MapDim > 0 {\n\t\t\ttname.ArrayDim = tname.MapDim - 1\n\t\t\ttname.MapDim = 0\n\t\t} else if tname.ArrayDim > 0 {\n\t\t\ttname.ArrayDim--\n\t\t} else {", Expect: "T5"},
		Mutant{Name: "c07-benign-split-ref-switch", Property: "C07", File: "martian/syntax/types.go",
			Old: "\t\t} else if tname.ArrayDim > 0 {\n\t\t\ttname.ArrayDim--\n\t\t} else if tname.MapDim > 0 {\n\t\t\ttname.ArrayDim = tname.MapDim - 1\n\t\t\ttname.MapDim = 0\n\t\t} else {",
			New: "\t\t} else if tname.ArrayDim != 0 {\n\t\t\ttname.ArrayDim--\n\t\t} else if tname.MapDim != 0 {\n\t\t\ttname.ArrayDim = tname.MapDim - 1\n\t\t\ttname.MapDim = 0\n\t\t} else {", Expect: ""},
	)
}
