package props

import (
	"go/token"
	"go/types"
	"strings"

	"mrocheck/an"

	"golang.org/x/tools/go/ssa"
)

// I5: when a JSON value is converted into an expression, the expected type is walked along with
// the value: an array value consumes one array dimension of the type, a map value (that is not a
// struct) turns a typed map into its value type.  The two adjustments belong to the two kinds of
// value.  If the adjustment made for one kind is applied to a value of the other kind - an array
// met where the type has no array dimension left "consumes" the map dimension instead - the
// elements are evaluated against the wrong type: the typed map inside a split argument is rendered
// as a struct literal, the structs inside it as maps, and the generated call does not compile or
// denotes other values.
//
// Stores to TypeId.MapDim (the map is unwrapped) in package core must be dominated by the arm of a
// type switch for a map-kind value (a type whose name contains "Map", or a Go map type); stores of
// ArrayDim-1 into TypeId.ArrayDim by the arm for an array-kind value (name contains "Array", or a
// slice type).  The arm is looked for in the storing function or at every call of it (a shared
// helper); a call is exempt when the store is under a test of a boolean parameter for which that
// call passes the opposite constant.
func ruleI5(c *an.Ctx) {
	p := c.P
	arr := p.Field(pkgSyntax, "TypeId", "ArrayDim")
	mp := p.Field(pkgSyntax, "TypeId", "MapDim")
	if arr == nil || mp == nil {
		c.Undecided("I5", "anchor(TypeId.ArrayDim, TypeId.MapDim)", token.NoPos, "field not found")
		return
	}
	kindOf := func(t types.Type) string {
		if pt, ok := t.(*types.Pointer); ok {
			t = pt.Elem()
		}
		name := ""
		if n, ok := t.(*types.Named); ok {
			name = n.Obj().Name()
		}
		switch {
		case strings.Contains(name, "Array"):
			return "array"
		case strings.Contains(name, "Map"):
			return "map"
		}
		switch t.Underlying().(type) {
		case *types.Slice:
			return "array"
		case *types.Map:
			return "map"
		}
		return ""
	}
	armOf := func(kind string) func(an.Rel) bool {
		return func(r an.Rel) bool {
			if r.Op != token.ILLEGAL || !r.Truth {
				return false
			}
			ex, ok := r.X.(*ssa.Extract)
			if !ok || ex.Index != 1 {
				return false
			}
			ta, ok := ex.Tuple.(*ssa.TypeAssert)
			return ok && ta.CommaOk && kindOf(ta.AssertedType) == kind
		}
	}
	var guardedUp func(fn *ssa.Function, at ssa.Instruction, pred func(an.Rel) bool, d int) bool
	guardedUp = func(fn *ssa.Function, at ssa.Instruction, pred func(an.Rel) bool, d int) bool {
		if g, _ := an.GuardedBy(at, pred); g {
			return true
		}
		if d > 2 {
			return false
		}
		// which boolean parameters must be true/false for `at` to execute
		type need struct {
			idx   int
			truth bool
		}
		var needs []need
		for i, prm := range fn.Params {
			if !isBoolType(prm.Type()) {
				continue
			}
			prm := prm
			for _, truth := range []bool{true, false} {
				truth := truth
				if g, _ := an.GuardedBy(at, func(r an.Rel) bool { return r.Op == token.ILLEGAL && r.Truth == truth && r.X == ssa.Value(prm) }); g {
					needs = append(needs, need{i, truth})
				}
			}
		}
		n := 0
		for caller, sites := range p.Callers(fn) {
			if caller == fn {
				continue
			}
			if caller.TypeParams().Len() > 0 && len(caller.TypeArgs()) == 0 {
				continue // the uninstantiated body of a generic function: its instances are callers too
			}
			for _, s := range sites {
				n++
				exempt := false
				for _, nd := range needs {
					if nd.idx < len(s.Common().Args) {
						if cv, ok := an.ConstVal(s.Common().Args[nd.idx]); ok && cv.String() != map[bool]string{true: "true", false: "false"}[nd.truth] {
							exempt = true
						}
					}
				}
				if exempt {
					continue
				}
				if !guardedUp(s.Parent(), s, pred, d+1) {
					return false
				}
			}
		}
		return n > 0
	}
	nMap, nArr := 0, 0
	for _, fn := range p.FuncsOf(pkgCore) {
		for _, st := range an.StoresToField(fn, mp) {
			nMap++
			c.Check("I5", "map-unwrapped-only-for-map-values@"+an.FnName(st.Parent()), st.Pos(), guardedUp(st.Parent(), st, armOf("map"), 0),
				"the expected type's map dimension is consumed outside the type-switch arm for a map value: a value of another kind (an array met where the type has no array dimension left) is then converted against the map's value type")
		}
		for _, st := range an.StoresToField(fn, arr) {
			b, ok := an.Strip(st.Val).(*ssa.BinOp)
			if !ok || b.Op != token.SUB || !an.LoadsField(b.X, arr) || !an.IsIntConst(b.Y, 1) {
				continue
			}
			nArr++
			c.Check("I5", "array-dimension-consumed-only-for-array-values@"+an.FnName(st.Parent()), st.Pos(), guardedUp(st.Parent(), st, armOf("array"), 0),
				"the expected type's array dimension is decremented outside the type-switch arm for an array value")
		}
	}
	c.Floor("I5", "stores unwrapping TypeId.MapDim in package core", nMap, 1)
	c.Floor("I5", "stores decrementing TypeId.ArrayDim in package core", nArr, 1)
}

// I6: a binary search is only made on a list that was sorted first.  The split status of an
// argument is found by looking its name up in InvocationData.SplitArgs, a list that arrives in
// binding order (BuildDataForAst, hand-written invocation JSON).  Replacing the scan by
// sort.SearchStrings / slices.BinarySearch without sorting the list first misses names, the
// argument loses its `split` and its value is printed as a plain map literal.  General form: in
// the runtime and syntax packages every SearchStrings/SearchInts/SearchFloat64s/BinarySearch* call
// takes a haystack on which, on every path from the function's entry, a sort call was made
// (same value or same access path).  No such search exists in the tree today; the rule is kept
// alive by its self-test mutant.
func ruleI6(c *an.Ctx) {
	p := c.P
	n := 0
	isSortOf := func(in ssa.Instruction, hay ssa.Value) bool {
		cl := an.AsCallAny(in)
		if cl == nil {
			return false
		}
		f := cl.Common().StaticCallee()
		if f != nil && f.Origin() != nil {
			f = f.Origin()
		}
		if f == nil || f.Pkg == nil || len(cl.Common().Args) == 0 {
			return false
		}
		pp := f.Pkg.Pkg.Path()
		if pp != "sort" && pp != "slices" {
			return false
		}
		switch f.Name() {
		case "Strings", "Ints", "Float64s", "Sort", "SortFunc", "SortStableFunc", "Stable", "Slice", "SliceStable":
		default:
			return false
		}
		a := an.Strip(cl.Common().Args[0])
		return a == an.Strip(hay) || an.Path(a) == an.Path(hay)
	}
	for _, pk := range []string{pkgCore, pkgSyntax} {
		for _, fn := range p.FuncsOf(pk) {
			an.Instrs(fn, func(in ssa.Instruction) {
				cl, ok := in.(*ssa.Call)
				if !ok {
					return
				}
				f := cl.Call.StaticCallee()
				if f != nil && f.Origin() != nil {
					f = f.Origin()
				}
				if f == nil || f.Pkg == nil || len(cl.Call.Args) == 0 {
					return
				}
				pp := f.Pkg.Pkg.Path()
				isSearch := (pp == "sort" && (f.Name() == "SearchStrings" || f.Name() == "SearchInts" || f.Name() == "SearchFloat64s")) ||
					(pp == "slices" && strings.HasPrefix(f.Name(), "BinarySearch"))
				if !isSearch {
					return
				}
				n++
				hay := cl.Call.Args[0]
				w := an.Query{Fn: fn, Target: func(x ssa.Instruction) bool { return x == in },
					Barrier: func(x ssa.Instruction) bool { return isSortOf(x, hay) }}.Find()
				c.Check("I6", "binary-search-on-sorted-list("+an.StablePath(hay)+")@"+an.FnName(fn), in.Pos(), w == nil,
					"a binary search is made on a list that is not sorted on every path to the search in this function: entries that are out of order are not found (an argument listed in splitargs loses its split status); "+c.WitnessString(w))
			})
		}
	}
	if n == 0 {
		c.Pass("I6", "no-binary-search-in-runtime-or-syntax", 0, "no SearchStrings/BinarySearch call in packages core and syntax")
	}
}
