package props

import (
	"fmt"
	"go/token"
	"go/types"
	"sort"
	"strings"

	"mrocheck/an"

	"golang.org/x/tools/go/ssa"
)

// P5: the top-level call is compiled with no enclosing pipeline: the compile functions receive a
// literal nil for their *Pipeline parameter.  Compilation runs outside the parse stage's recover
// barrier, so a dereference of that parameter crashes the process on a near-valid program (for
// example a wildcard binding in the top-level call).  May-be-nil analysis: starting from every call
// site in package syntax that passes the constant nil for a parameter of type *Pipeline, the
// parameter is followed through direct argument passing (and as a method receiver); every field
// access through it must be dominated by a test against nil.
func ruleP5(c *an.Ctx) {
	p := c.P
	fns := p.FuncsOf(pkgSyntax)
	inPkg := map[*ssa.Function]bool{}
	for _, f := range fns {
		inPkg[f] = true
	}
	isPipelinePtr := func(t types.Type) bool {
		pt, ok := t.(*types.Pointer)
		if !ok {
			return false
		}
		n, ok := pt.Elem().(*types.Named)
		return ok && n.Obj().Name() == "Pipeline" && n.Obj().Pkg() != nil && strings.HasSuffix(n.Obj().Pkg().Path(), pkgSyntax)
	}
	mayNil := map[*ssa.Parameter]string{} // parameter -> how nil gets there
	var work []*ssa.Parameter
	mark := func(prm *ssa.Parameter, why string) {
		if _, ok := mayNil[prm]; !ok {
			mayNil[prm] = why
			work = append(work, prm)
		}
	}
	paramFor := func(callee *ssa.Function, common *ssa.CallCommon, argIdx int) *ssa.Parameter {
		// go/ssa: for static method calls the receiver is Args[0]
		if argIdx < len(callee.Params) {
			return callee.Params[argIdx]
		}
		return nil
	}
	nSeeds := 0
	for _, fn := range fns {
		an.Instrs(fn, func(in ssa.Instruction) {
			cl := an.AsCallAny(in)
			if cl == nil {
				return
			}
			callee := cl.Common().StaticCallee()
			if callee == nil || !inPkg[callee] {
				return
			}
			for i, a := range cl.Common().Args {
				if cst, ok := a.(*ssa.Const); ok && cst.IsNil() && isPipelinePtr(cst.Type()) {
					if prm := paramFor(callee, cl.Common(), i); prm != nil {
						nSeeds++
						mark(prm, "nil passed by "+an.FnName(fn))
					}
				}
			}
		})
	}
	c.Floor("P5", "call sites passing a nil *Pipeline (compilation of the top-level call)", nSeeds, 1)
	nonNilGuard := func(site ssa.Instruction, prm *ssa.Parameter) bool {
		g, _ := an.GuardedBy(site, func(r an.Rel) bool {
			return r.Op == token.NEQ && ((r.X == ssa.Value(prm) && an.IsNil(r.Y)) || (r.Y == ssa.Value(prm) && an.IsNil(r.X)))
		})
		return g
	}
	type finding struct {
		key, detail string
		pos         token.Pos
	}
	var bad []finding
	nDeref := 0
	for len(work) > 0 {
		prm := work[0]
		work = work[1:]
		fn := prm.Parent()
		for _, r := range an.Referrers(prm) {
			switch x := r.(type) {
			case *ssa.FieldAddr:
				if x.X != ssa.Value(prm) {
					continue
				}
				nDeref++
				if !nonNilGuard(x, prm) {
					bad = append(bad, finding{"nil-pipeline-not-dereferenced(" + prm.Name() + ")@" + an.FnName(fn),
						fmt.Sprintf("%s may be nil here (%s) and its field is accessed without a dominating nil test: compiling a top-level call that reaches this code crashes the process instead of reporting an error", prm.Name(), mayNil[prm]), x.Pos()})
				}
			case ssa.CallInstruction:
				callee := x.Common().StaticCallee()
				if callee == nil || !inPkg[callee] {
					continue
				}
				if nonNilGuard(x.(ssa.Instruction), prm) {
					continue
				}
				for i, a := range x.Common().Args {
					if a == ssa.Value(prm) {
						if q := paramFor(callee, x.Common(), i); q != nil {
							mark(q, mayNil[prm]+" -> "+an.FnName(fn))
						}
					}
				}
			}
		}
	}
	sort.Slice(bad, func(i, j int) bool { return bad[i].key < bad[j].key })
	seen := map[string]bool{}
	for _, b := range bad {
		if seen[b.key] {
			continue
		}
		seen[b.key] = true
		c.Fail("P5", b.key, b.pos, b.detail)
	}
	if len(bad) == 0 {
		c.Pass("P5", "nil-pipeline-not-dereferenced", token.NoPos,
			fmt.Sprintf("%d parameters can receive the nil pipeline of the top-level call; none of the %d field accesses through them lacks a dominating nil test", len(mayNil), nDeref))
	}
	c.Note("P5: parameters that may hold the nil pipeline: %d; guarded field accesses through them: %d", len(mayNil), nDeref)
}

// P6: rendering a located error is proportional to the number of files.  A source location is
// printed with the chain of `@include`s that brought its file in; a file included from several
// places has several includers (SourceFile.IncludedFrom), and printing "every way this file was
// included" by recursing into each includer visits a file once per PATH of the include graph.
// With diamond includes the number of paths doubles per level: two kilobytes of source render a
// compile error of hundreds of megabytes - "time or memory out of proportion to the input size".
// Rule: a function of package syntax that writes (has a writer parameter) and calls itself inside
// a loop over a SourceFile.IncludedFrom list must consult a set of files already expanded (a map
// keyed by *SourceFile that it looks up and updates) - the standard memo that bounds a DAG walk
// by its edges.  The include checker's own upward walk (checkIncludes) is exempt: it does not
// write, and it runs while every ancestor still has a single includer.
func ruleP6(c *an.Ctx) {
	p := c.P
	incFrom := p.Field(pkgSyntax, "SourceFile", "IncludedFrom")
	if incFrom == nil {
		c.Info("P6", "anchor(SourceFile.IncludedFrom)", 0, "field not found: not decided")
		return
	}
	n := 0
	for _, fn := range p.FuncsOf(pkgSyntax) {
		if fn.Parent() != nil || fn.Blocks == nil {
			continue
		}
		writes := false
		for _, prm := range fn.Params {
			ts := prm.Type().String()
			if strings.Contains(ts, "stringWriter") || strings.Contains(ts, "io.Writer") || strings.Contains(ts, "strings.Builder") || strings.Contains(ts, "bytes.Buffer") {
				writes = true
			}
		}
		if !writes {
			continue
		}
		// loops over IncludedFrom
		loops := naturalLoops(fn)
		for h, body := range loops {
			overIncludes := false
			for b := range body {
				for _, in := range b.Instrs {
					if ia, ok := in.(*ssa.IndexAddr); ok && an.LoadsField(ia.X, incFrom) {
						overIncludes = true
					}
				}
			}
			if !overIncludes {
				continue
			}
			recurses := false
			for b := range body {
				for _, in := range b.Instrs {
					if cl, ok := in.(*ssa.Call); ok && cl.Call.StaticCallee() == fn {
						recurses = true
					}
				}
			}
			if !recurses {
				continue
			}
			n++
			// a set of files: looked up and updated in this function
			looked, updated := false, false
			an.Instrs(fn, func(in ssa.Instruction) {
				isFileSet := func(v ssa.Value) bool {
					mt, ok := v.Type().Underlying().(*types.Map)
					return ok && strings.Contains(mt.Key().String(), "SourceFile")
				}
				switch x := in.(type) {
				case *ssa.Lookup:
					if isFileSet(x.X) {
						looked = true
					}
				case *ssa.MapUpdate:
					if isFileSet(x.Map) {
						updated = true
					}
				}
			})
			c.Check("P6", "include-paths-rendered-once-per-file@"+an.FnName(fn), h.Instrs[0].Pos(), looked && updated,
				"this writer calls itself for every includer of a file without remembering which files it has already expanded: a file reachable through k include paths is rendered k times, and k doubles with every level of diamond includes (a 2 KB program can produce an error message of hundreds of megabytes)")
		}
	}
	if n == 0 {
		c.Pass("P6", "no-fan-out-recursion-over-includers-in-writers", 0, "no writer of package syntax recurses inside a loop over SourceFile.IncludedFrom")
	}
}
