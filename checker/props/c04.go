package props

import (
	"fmt"
	"go/token"
	"go/types"
	"sort"
	"strings"

	"mrocheck/an"

	"golang.org/x/tools/go/ssa"
)

func init() {
	Registry["C04"] = Entry{
		Run: runC04,
		Explanation: "Decides structural necessary conditions of 'volatile data removal never deletes a file that is still needed': " +
			"V1 deletion sites are owned (every os.Remove/RemoveAll in package core is in a tabled function; the files-path deleters vdrKill/vdrKillSome are reachable only through partialVdrKill, Metadata.removeAll only from reset and from removeMetadata under an empty files directory, temp cleaners only from partialVdrKill or the doChunks goroutine), " +
			"V2 a full kill happens only for a disabled fork or a complete fork with no waiting file post-node, consumers are dropped only when seen Complete/Disabled, failed forks are never reclaimed, " +
			"V3 per-file kill takes only files whose keep-alive set is nil, and the set becomes nil only when empty after removing arguments nobody waits for, " +
			"V4 chunk files of a non-volatile stage are reclaimed only if the stage splits, " +
			"V5 top-level outputs and retains are registered with the nil consumer which can never be removed, and dynamic forks inherit both maps, " +
			"V6 fileArgs/filePostNodes/fileParamMap are only accessed under Fork.storageLock outside the constructor phase, " +
			"V7 alias completeness: once a file is known to exist every returning path of getLogicalFileNames consults filepath.EvalSymlinks and appends its result, " +
			"V8 whole-call references: LazyArgumentMap.jsonPath maps the empty output id to the whole outs map (or every call site excludes the empty path). " +
			"V9 the type-less projection jsonPath applies the remaining path to every entry of a decoded object (typed map) as it does to every array element; V7c the walked side of anyOverlap is a getLogicalFileNames result on all paths. " +
			"V5 as a path rule: every path (every iteration) through the code that registers top-level outputs and retains inserts the nil consumer, also for arguments that already have consumers. " +
			"V10 where the keep-alive projection has the declared type, the struct-style lookup is dominated by the failed assertion of that type to *TypedMapType; V8/V9 follow thin wrappers. " +
			"V11 getMaybeFileNames examines no raw byte other than the first; V12 its no-separator shortcut also excludes \\u escapes. " +
			"NOT decided: whether the names found are every alias of a file, anyOverlap (file-system values).",
		Assumptions: commonAssumptions,
	}
}

// deletion ownership table: function -> class (reason)
var deleteOwners = map[string]string{
	"(*Metadata).uniquify":            "roll-back of a failed uniquify (directories it just created)",
	"(*Metadata).removeAll":           "FILES: reset of a failed/never started/dead job, or empty directories at completion",
	"(*Metadata).remove":              "single metadata file",
	"(*Metadata)._removeNoLock":       "single metadata file",
	"(*Metadata).uncheckedReset":      "journal entries of the attempt being reset",
	"(*Node).reset":                   "whole node directory on full stage reset + its journal entries",
	"(*Node).postProcess":             "journal and tmp directories at pipestance completion",
	"(*Node).refreshState":            "journal entries after they were applied",
	"(*Pipestance).ZipMetadata":       "metadata files after they were zipped",
	"(*Pipestance).Immortalize":       "stale zip",
	"(*Runtime).InvokePipeline":       "roll-back of a failed first invocation (nothing ran yet)",
	"(*Runtime).reattachToPipestance": "metadata zip after unzipping",
	"(*Fork).vdrKillSome":             "FILES: per-file VDR",
	"(*Fork).vdrKill":                 "FILES: chunk files of a splitting stage",
	"(*Fork).cleanSplitTemp":          "TEMP: split tmp directory",
	"(*Fork).cleanChunkTemp":          "TEMP: chunk tmp directories",
	"(*Fork).cleanJoinTemp":           "TEMP: join tmp directory",
	"writeAtomic":                     "temporary file of a failed atomic write",
}

func isRemoveCall(in ssa.Instruction) (ssa.CallInstruction, bool) {
	if c, ok := an.IsPkgFuncCall(in, "os", "Remove"); ok {
		return c, true
	}
	if c, ok := an.IsPkgFuncCall(in, "os", "RemoveAll"); ok {
		return c, true
	}
	return nil, false
}

func runC04(c *an.Ctx) {
	ruleV1(c)
	ruleV2(c)
	ruleV3(c)
	ruleV4(c)
	ruleV5(c)
	ruleV6(c)
	ruleV7(c)
	ruleV8(c)
	ruleV9(c)
	ruleV10(c)
	ruleV11(c)
	ruleV12(c)
	ruleV7c(c)
}

func ruleV1(c *an.Ctx) {
	p := c.P
	counts := map[string]int{}
	for _, fn := range coreFns(c) {
		an.Instrs(fn, func(in ssa.Instruction) {
			if _, ok := isRemoveCall(in); !ok {
				return
			}
			owner := an.FnName(an.Outermost(fn))
			if _, ok := deleteOwners[owner]; !ok {
				// a block of a tabled owner extracted into a private helper keeps its owner's class:
				// unexported, and every caller (through further such helpers) is one tabled function
				host := an.Outermost(fn)
				for hops := 0; hops < 3 && host.Object() != nil && !host.Object().Exported(); hops++ {
					var callers []*ssa.Function
					seen := map[*ssa.Function]bool{}
					for caller := range p.Callers(host) {
						if o := an.Outermost(caller); !seen[o] {
							seen[o] = true
							callers = append(callers, o)
						}
					}
					if len(callers) != 1 {
						break
					}
					host = callers[0]
					if _, ok := deleteOwners[an.FnName(host)]; ok {
						owner = an.FnName(host)
						break
					}
				}
			}
			counts[owner]++
			if _, ok := deleteOwners[owner]; !ok {
				c.Undecided("V1", "delete-site@"+owner, in.Pos(),
					"os.Remove/RemoveAll in a function that is not in the deletion ownership table; classify it (what may it delete, under which guard) before it can be accepted")
			}
		})
	}
	var names []string
	total := 0
	for n, k := range counts {
		names = append(names, fmt.Sprintf("%s=%d", n, k))
		total += k
	}
	sort.Strings(names)
	c.Note("deletion sites in package core: %s", strings.Join(names, " "))
	c.Floor("V1", "os.Remove/RemoveAll sites in package core", total, 5)
	for owner := range counts {
		if _, ok := deleteOwners[owner]; ok {
			c.Pass("V1", "delete-owner("+owner+")", token.NoPos, deleteOwners[owner])
		}
	}
	callers := func(name string, allowed ...string) {
		fn := c.NeedFunc(pkgCore, name)
		if fn == nil {
			return
		}
		// unexported helpers between an allowed caller and the function are looked through
		got := effectiveCallers(p, fn, allowed)
		ok, extra := subset(got, allowed)
		c.Check("V1", "callers("+name+")", fn.Pos(), ok && len(got) > 0, fmt.Sprintf("allowed %v; found %v (unexpected %q)", allowed, got, extra))
	}
	callers("(*Fork).vdrKill", "(*Fork).partialVdrKill")
	callers("(*Fork).vdrKillSome", "(*Fork).partialVdrKill", "(*Fork).vdrKill")
	callers("(*Metadata).removeAll", "(*Metadata).uncheckedReset", "(*Fork).removeMetadata")
	callers("(*Fork).cleanSplitTemp", "(*Fork).partialVdrKill", "(*Fork).doChunks")
	callers("(*Fork).cleanChunkTemp", "(*Fork).partialVdrKill")
	callers("(*Fork).cleanJoinTemp", "(*Fork).partialVdrKill")
	callers("(*Fork).removeFilePostNodes", "(*Fork).partialVdrKill")
	callers("(*Fork).removeMetadata", "(*Node).removeMetadata")
	callers("(*Fork).removeFileArg", "(*Fork).cacheParamFileMap", "(*Fork).removeEmptyFileArgs")

	// removeMetadata: removeAll only when the files directory is empty
	rm := c.NeedFunc(pkgCore, "(*Fork).removeMetadata")
	removeAll := c.NeedFunc(pkgCore, "(*Metadata).removeAll")
	if rm != nil && removeAll != nil {
		n := 0
		for _, call := range callsTo(rm, removeAll) {
			n++
			g, w := an.GuardedBy(call.(ssa.Instruction), func(r an.Rel) bool {
				isLenFiles := func(v ssa.Value) bool {
					args, ok := an.IsBuiltinCall(v, "len")
					if !ok {
						return false
					}
					ex, ok := args[0].(*ssa.Extract)
					if !ok {
						return false
					}
					cl, ok := ex.Tuple.(*ssa.Call)
					return ok && cl.Call.StaticCallee() != nil && cl.Call.StaticCallee().Name() == "enumerateFiles"
				}
				return relEq(r, isLenFiles, func(v ssa.Value) bool { return an.IsIntConst(v, 0) })
			})
			c.Check("V1", "removeAll-only-if-no-files@(*Fork).removeMetadata", call.Pos(), g,
				"at completion a step's directory may be removed only if its files directory is empty; "+c.WitnessString(w))
		}
		c.Floor("V1", "removeAll calls in removeMetadata", n, 1)
	}
}

func uniqStr(s []string) []string {
	var o []string
	for i, x := range s {
		if i == 0 || x != s[i-1] {
			o = append(o, x)
		}
	}
	return o
}

func ruleV2(c *an.Ctx) {
	p := c.P
	fn := c.NeedFunc(pkgCore, "(*Fork).partialVdrKill")
	vdrKill := c.NeedFunc(pkgCore, "(*Fork).vdrKill")
	vdrKillSome := c.NeedFunc(pkgCore, "(*Fork).vdrKillSome")
	rmPost := c.NeedFunc(pkgCore, "(*Fork).removeFilePostNodes")
	forkGetState := c.NeedFunc(pkgCore, "(*Fork).getState")
	nodeGetState := c.NeedFunc(pkgCore, "(*Node).getState")
	filePostNodes := p.Field(pkgCore, "Fork", "filePostNodes")
	if fn == nil || vdrKill == nil || vdrKillSome == nil || rmPost == nil || forkGetState == nil || nodeGetState == nil || filePostNodes == nil {
		return
	}
	isForkState := func(v ssa.Value) bool {
		call, ok := v.(*ssa.Call)
		return ok && call.Call.StaticCallee() == forkGetState
	}
	stateIs := func(name string) func(an.Rel) bool {
		return func(r an.Rel) bool {
			return relEq(r, isForkState, func(v ssa.Value) bool { return isState(p, v, name) })
		}
	}
	noPostNodes := func(r an.Rel) bool {
		isLen := func(v ssa.Value) bool {
			args, ok := an.IsBuiltinCall(v, "len")
			return ok && an.LoadsField(args[0], filePostNodes)
		}
		return relEq(r, isLen, func(v ssa.Value) bool { return an.IsIntConst(v, 0) })
	}
	notFailed := func(r an.Rel) bool {
		if r.Op != token.ILLEGAL || r.Truth {
			return false
		}
		call, ok := r.X.(*ssa.Call)
		return ok && call.Call.StaticCallee() != nil && call.Call.StaticCallee().Name() == "IsFailed" && isForkState(call.Call.Args[0])
	}
	nFull := 0
	for _, callee := range []*ssa.Function{vdrKill, vdrKillSome} {
		for _, call := range callsTo(fn, callee) {
			in := call.(ssa.Instruction)
			full := true
			if callee == vdrKillSome {
				cv, isC := call.Common().Args[2].(*ssa.Const)
				full = !(isC && cv.Value != nil && cv.Value.String() == "false")
			}
			key := "kill(" + callee.Name()
			if callee == vdrKillSome {
				key += fmt.Sprintf(",done=%v", full)
			}
			key += ")@(*Fork).partialVdrKill"
			gNF, _ := an.GuardedBy(in, notFailed)
			c.Check("V2", key+":not-failed", in.Pos(), gNF, "a failed fork's files are never reclaimed (they are needed for the restart and for debugging)")
			gDis, _ := an.GuardedBy(in, stateIs("DisabledState"))
			gComplete, _ := an.GuardedBy(in, stateIs("Complete"))
			if full {
				nFull++
				gNone, w := an.GuardedBy(in, noPostNodes)
				c.Check("V2", key+":only-when-nobody-waits", in.Pos(), gDis || (gComplete && gNone),
					"a full kill requires state==DisabledState, or state==Complete and len(filePostNodes)==0; "+c.WitnessString(w))
			} else {
				c.Check("V2", key+":only-when-complete", in.Pos(), gComplete, "a per-file kill requires the fork to be complete")
			}
		}
	}
	c.Floor("V2", "full kill sites in partialVdrKill", nFull, 1)
	// consumers are dropped only when seen Complete / Disabled, and never the nil consumer
	for _, call := range callsTo(fn, rmPost) {
		arg := call.Common().Args[1]
		// every append that can feed arg: in partialVdrKill itself, or in a private helper whose result
		// (built by the append) is what reaches arg
		n := 0
		var feeders []ssa.Instruction
		appendsFeeding := func(host *ssa.Function, target func(*an.Taint, *ssa.Call) bool) {
			an.Instrs(host, func(in ssa.Instruction) {
				cl, ok := in.(*ssa.Call)
				if !ok {
					return
				}
				if _, isApp := an.IsBuiltinCall(cl, "append"); !isApp {
					return
				}
				t := an.NewTaint(0, nil)
				t.Add(cl)
				t.Run()
				if target(t, cl) {
					feeders = append(feeders, in)
				}
			})
		}
		appendsFeeding(fn, func(t *an.Taint, cl *ssa.Call) bool { return t.Has(arg) || ssa.Value(cl) == arg })
		for _, h := range familyOf(p, fn, 2)[1:] {
			h := h
			// does a call of h reach arg?
			reaches := false
			for _, cs := range callsTo(fn, h) {
				if v := cs.Value(); v != nil {
					t := an.NewTaint(0, nil)
					t.Add(v)
					t.Run()
					if t.Has(arg) || ssa.Value(v) == arg {
						reaches = true
					}
				}
			}
			if !reaches {
				continue
			}
			appendsFeeding(h, func(t *an.Taint, cl *ssa.Call) bool {
				hit := false
				an.Instrs(h, func(in ssa.Instruction) {
					if r, ok := in.(*ssa.Return); ok {
						for i := range r.Results {
							if v := an.RetVal(r, i); t.Has(v) || v == ssa.Value(cl) {
								hit = true
							}
						}
					}
				})
				return hit
			})
		}
		for _, in := range feeders {
			in := in
			n++
			isNodeState := func(v ssa.Value) bool {
				c2, ok := v.(*ssa.Call)
				return ok && c2.Call.StaticCallee() == nodeGetState
			}
			// the only way to reach the append is through st == Complete or st == DisabledState
			g, w := an.GuardedBy(in, func(r an.Rel) bool {
				return relEq(r, isNodeState, func(v ssa.Value) bool { return isState(p, v, "Complete") }) ||
					relEq(r, isNodeState, func(v ssa.Value) bool { return isState(p, v, "DisabledState") })
			})
			c.Check("V2", "consumer-dropped-only-when-done@(*Fork).partialVdrKill", in.Pos(), g,
				"a consumer may be removed from the waiting set only after its state compared Complete or DisabledState; "+c.WitnessString(w))
			g2, _ := an.GuardedBy(in, func(r an.Rel) bool { return r.Op == token.NEQ && an.IsNil(r.Y) })
			c.Check("V2", "nil-consumer-never-dropped@(*Fork).partialVdrKill", in.Pos(), g2,
				"the nil consumer (top-level outputs, retains) must never be put on the done list")
		}
		c.Floor("V2", "appends feeding removeFilePostNodes", n, 1)
	}
	// removeFilePostNodes deletes only what it was given
	for _, f := range []*types.Var{filePostNodes} {
		an.Instrs(rmPost, func(in ssa.Instruction) {
			cl, ok := in.(*ssa.Call)
			if !ok {
				return
			}
			args, isDel := an.IsBuiltinCall(cl, "delete")
			if !isDel || !an.LoadsField(args[0], f) {
				return
			}
			t := an.NewTaint(0, nil)
			t.Add(rmPost.Params[1])
			t.Run()
			c.Check("V2", "removes-only-given-consumers@(*Fork).removeFilePostNodes", in.Pos(), t.Has(args[1]),
				"removeFilePostNodes may delete only consumers passed in its argument")
		})
	}
}

func ruleV3(c *an.Ctx) {
	p := c.P
	kill := c.NeedFunc(pkgCore, "(*Fork).vdrKillSome")
	upd := c.NeedFunc(pkgCore, "(*Fork).updateParamFileCache")
	argsF := p.Field(pkgCore, "vdrFileCache", "args")
	fileArgs := p.Field(pkgCore, "Fork", "fileArgs")
	fileParamMap := p.Field(pkgCore, "Fork", "fileParamMap")
	if kill == nil || upd == nil || argsF == nil || fileArgs == nil || fileParamMap == nil {
		c.Undecided("anchor", "V3 anchors", token.NoPos, "vdrKillSome/updateParamFileCache/vdrFileCache.args not found")
		return
	}
	// the argument of os.RemoveAll derives only from appends guarded by args == nil
	for _, in := range instrsOf(kill) {
		call, ok := isRemoveCall(in)
		if !ok {
			continue
		}
		arg := call.Common().Args[0]
		// backward slice: every string that can reach arg originates from a range key of
		// fileParamMap, and every append that takes such a key directly is guarded by args == nil
		leaves := stringOrigins(arg)
		n := 0
		okAll := true
		var bad string
		for _, leaf := range leaves {
			ex, isEx := leaf.(*ssa.Extract)
			isKey := false
			if isEx && ex.Index == 1 {
				if nx, ok := ex.Tuple.(*ssa.Next); ok {
					if rg, ok := nx.Iter.(*ssa.Range); ok && an.LoadsField(rg.X, fileParamMap) {
						isKey = true
					}
				}
			}
			if !isKey {
				okAll = false
				bad = "origin " + an.StablePath(leaf) + " is not a key of fileParamMap"
				continue
			}
			// appends that take the key directly (in the function that ranges over the cache: vdrKillSome
			// itself or a helper it takes the list from)
			host := kill
			if li, ok := leaf.(ssa.Instruction); ok && li.Parent() != nil {
				host = li.Parent()
			}
			for _, in2 := range instrsOf(host) {
				cl, ok := in2.(*ssa.Call)
				if !ok {
					continue
				}
				a, isApp := an.IsBuiltinCall(cl, "append")
				if !isApp || !directElem(a[1], leaf) {
					continue
				}
				n++
				g, _ := an.GuardedBy(in2, func(r an.Rel) bool {
					return r.Op == token.EQL && an.IsNil(r.Y) && an.LoadsField(r.X, argsF)
				})
				if !g {
					okAll = false
					bad = "append at " + p.Pos(in2.Pos()) + " is not guarded by args == nil"
				}
			}
		}
		c.Floor("V3", "guarded appends of fileParamMap keys in vdrKillSome", n, 1)
		c.Check("V3", "kill-only-unreferenced-files@(*Fork).vdrKillSome", in.Pos(), okAll && len(leaves) > 0,
			"only keys of fileParamMap whose keep-alive set (args) is nil may reach os.RemoveAll; "+bad)
		// reported before removed, inside one critical section: see C14
	}
	// updateParamFileCache: args = nil only under len(args)==0; delete(args, arg) only when fileArgs has no such arg
	n := 0
	for _, st := range an.StoresToField(upd, argsF) {
		if !an.IsNil(st.Val) {
			continue
		}
		n++
		g, w := an.GuardedBy(st, func(r an.Rel) bool {
			isLen := func(v ssa.Value) bool {
				a, ok := an.IsBuiltinCall(v, "len")
				return ok && an.LoadsField(a[0], argsF)
			}
			return relEq(r, isLen, func(v ssa.Value) bool { return an.IsIntConst(v, 0) })
		})
		c.Check("V3", "unreferenced-only-when-empty@(*Fork).updateParamFileCache", st.Pos(), g,
			"a file's keep-alive set may become nil only when it is empty; "+c.WitnessString(w))
	}
	c.Floor("V3", "args=nil stores in updateParamFileCache", n, 1)
	nd := 0
	an.Instrs(upd, func(in ssa.Instruction) {
		cl, ok := in.(*ssa.Call)
		if !ok {
			return
		}
		a, isDel := an.IsBuiltinCall(cl, "delete")
		if !isDel || !an.LoadsField(a[0], argsF) {
			return
		}
		nd++
		g, w := an.GuardedBy(in, func(r an.Rel) bool {
			if r.Op != token.ILLEGAL || r.Truth {
				return false
			}
			ex, ok := r.X.(*ssa.Extract)
			if !ok || ex.Index != 1 {
				return false
			}
			lk, ok := ex.Tuple.(*ssa.Lookup)
			return ok && an.LoadsField(lk.X, fileArgs)
		})
		c.Check("V3", "arg-dropped-only-if-nobody-waits@(*Fork).updateParamFileCache", in.Pos(), g,
			"an argument may be removed from a file's keep-alive set only when fileArgs no longer lists it; "+c.WitnessString(w))
	})
	c.Floor("V3", "delete(args, arg) in updateParamFileCache", nd, 1)
	// vdrKillSome refreshes the cache before deciding
	okRefresh, w := an.MustPass(kill, nil, func(in ssa.Instruction) bool { _, ok := isRemoveCall(in); return ok }, func(in ssa.Instruction) bool {
		return an.CalleeIs(in, upd, p.Func(pkgCore, "(*Fork).cacheParamFileMap"))
	})
	c.Check("V3", "cache-refreshed-before-kill@(*Fork).vdrKillSome", kill.Pos(), okRefresh, "the file→argument cache must be (re)computed before files are selected; "+c.WitnessString(w))
}

func instrsOf(fn *ssa.Function) []ssa.Instruction {
	var out []ssa.Instruction
	an.Instrs(fn, func(in ssa.Instruction) { out = append(out, in) })
	return out
}

// directElem: spread operand `sl` of an append is a one-element temp array holding v.
func directElem(sl ssa.Value, v ssa.Value) bool {
	s, ok := sl.(*ssa.Slice)
	if !ok {
		return false
	}
	al, ok := s.X.(*ssa.Alloc)
	if !ok {
		return false
	}
	for _, r := range an.Referrers(al) {
		if ia, ok := r.(*ssa.IndexAddr); ok {
			for _, r2 := range an.Referrers(ia) {
				if st, ok := r2.(*ssa.Store); ok && st.Val == v {
					return true
				}
			}
		}
	}
	return false
}

// stringOrigins: backward slice over string / []string construction
// (phi, append, slicing, element loads, temp arrays) down to the leaves.
func stringOrigins(v ssa.Value) []ssa.Value {
	seen := map[ssa.Value]bool{}
	var leaves []ssa.Value
	var rec func(v ssa.Value)
	depth := 0
	var ctx []*ssa.Call // calls being descended into (innermost last)
	// descend: the value is result idx of a call to a slice-returning helper of package core whose
	// body is available: its origins are the origins of what the helper returns (a block extracted
	// into a helper keeps its origins).  Accessors of Metadata stay leaves: they are the roots.
	descend := func(call *ssa.Call, idx int) bool {
		f := call.Call.StaticCallee()
		if f == nil || f.Blocks == nil || f.Pkg == nil || f.Pkg.Pkg.Path() != corePath || depth >= 2 {
			return false
		}
		if f.Signature.Recv() != nil && strings.HasSuffix(f.Signature.Recv().Type().String(), "core.Metadata") {
			return false
		}
		res := f.Signature.Results()
		if idx >= res.Len() {
			return false
		}
		if _, isSlice := res.At(idx).Type().Underlying().(*types.Slice); !isSlice {
			return false
		}
		depth++
		ctx = append(ctx, call)
		an.Instrs(f, func(in ssa.Instruction) {
			if r, ok := in.(*ssa.Return); ok && idx < len(r.Results) {
				rec(an.RetVal(r, idx))
			}
		})
		ctx = ctx[:len(ctx)-1]
		depth--
		return true
	}
	rec = func(v ssa.Value) {
		if v == nil || seen[v] {
			return
		}
		seen[v] = true
		switch x := v.(type) {
		case *ssa.Parameter:
			// a parameter of a helper that was descended into: continue with the actual argument
			for i := len(ctx) - 1; i >= 0; i-- {
				if f := ctx[i].Call.StaticCallee(); f == x.Parent() {
					for j, prm := range f.Params {
						if prm == x && j < len(ctx[i].Call.Args) {
							saved := ctx
							ctx = ctx[:i]
							rec(ctx0(saved, i).Call.Args[j])
							ctx = saved
							return
						}
					}
				}
			}
			leaves = append(leaves, v)
		case *ssa.Phi:
			for _, e := range x.Edges {
				rec(e)
			}
		case *ssa.Call:
			if args, ok := an.IsBuiltinCall(x, "append"); ok {
				rec(args[0])
				rec(args[1])
				return
			}
			if descend(x, 0) {
				return
			}
			leaves = append(leaves, v)
		case *ssa.Extract:
			if call, ok := x.Tuple.(*ssa.Call); ok && descend(call, x.Index) {
				return
			}
			leaves = append(leaves, v)
		case *ssa.Slice:
			rec(x.X)
		case *ssa.UnOp:
			if x.Op == token.MUL {
				if ia, ok := x.X.(*ssa.IndexAddr); ok {
					rec(ia.X)
					return
				}
			}
			leaves = append(leaves, v)
		case *ssa.Alloc:
			for _, r := range an.Referrers(x) {
				if ia, ok := r.(*ssa.IndexAddr); ok {
					for _, r2 := range an.Referrers(ia) {
						if st, ok := r2.(*ssa.Store); ok {
							rec(st.Val)
						}
					}
				}
			}
		case *ssa.MakeSlice:
		case *ssa.Const:
		default:
			leaves = append(leaves, v)
		}
	}
	rec(v)
	return leaves
}

func ruleV4(c *an.Ctx) {
	p := c.P
	fn := c.NeedFunc(pkgCore, "(*Fork).vdrKill")
	split := c.NeedFunc(pkgCore, "(*Fork).Split")
	if fn == nil || split == nil {
		return
	}
	n := 0
	fam := familyOf(p, fn, 2)
	for _, host := range fam {
		an.Instrs(host, func(in ssa.Instruction) {
			cl, ok := in.(*ssa.Call)
			if !ok {
				return
			}
			args, isApp := an.IsBuiltinCall(cl, "append")
			if !isApp || cl.Type().String() != "[]string" {
				return
			}
			// appends of enumerateFiles() results (the spread operand is the call's first result)
			src := args[1]
			if sl, ok := src.(*ssa.Slice); ok {
				src = sl.X
			}
			ex, ok := src.(*ssa.Extract)
			if !ok {
				return
			}
			c2, ok := ex.Tuple.(*ssa.Call)
			if !ok || c2.Call.StaticCallee() == nil || c2.Call.StaticCallee().Name() != "enumerateFiles" {
				return
			}
			n++
			g := guardedInFamily(p, fam, in, func(r an.Rel) bool {
				if r.Op != token.ILLEGAL || !r.Truth {
					return false
				}
				call, ok := r.X.(*ssa.Call)
				return ok && call.Call.StaticCallee() == split
			}, 0)
			c.Check("V4", "chunk-files-only-if-stage-splits@"+an.FnName(host), in.Pos(), g,
				"chunk files may be put on the kill list only under self.Split() (tested in the function itself or at every call of the private helper that collects them): a non-splitting stage's single chunk holds the stage's real outputs")
		})
	}
	c.Floor("V4", "appends of enumerateFiles() to the kill list in vdrKill or its private helpers", n, 1)
}

func ruleV5(c *an.Ctx) {
	p := c.P
	fileArgs := p.Field(pkgCore, "Fork", "fileArgs")
	filePostNodes := p.Field(pkgCore, "Fork", "filePostNodes")
	attach := c.NeedFunc(pkgCore, "(*Node).attachToFileParents")
	if fileArgs == nil || filePostNodes == nil || attach == nil {
		return
	}
	// (a) attachToFileParents: the only early return is for a non-top-level pipeline
	var rng *ssa.Range
	an.Instrs(attach, func(in ssa.Instruction) {
		if r, ok := in.(*ssa.Range); ok && r.X == ssa.Value(attach.Params[1]) {
			rng = r
		}
	})
	if rng == nil {
		c.Undecided("V5", "range(fileParents)@(*Node).attachToFileParents", attach.Pos(), "loop over fileParents not found")
	} else {
		parent := p.Field(pkgCore, "Node", "parent")
		w := an.Query{Fn: attach, Target: an.IsReturn,
			Barrier: func(in ssa.Instruction) bool { return in == ssa.Instruction(rng) },
			BarrierEdge: func(from, to *ssa.BasicBlock) bool {
				return an.EdgeHolds(from, to, func(r an.Rel) bool {
					// self.parent != self.top
					return r.Op == token.NEQ && (an.LoadsField(an.Strip(r.X), parent) || an.LoadsField(an.Strip(r.Y), parent))
				})
			}}.Find()
		c.Check("V5", "top-level-pipeline-registers-outputs@(*Node).attachToFileParents", attach.Pos(), w == nil,
			"only a non-top-level pipeline may skip registration; the top-level pipeline must register the files it returns; "+c.WitnessString(w))
	}
	// (b) inside the loop: fileArgs is updated unconditionally, filePostNodes only for a real consumer
	nArgs, nPost := 0, 0
	realConsumer := func(r an.Rel) bool { return r.Op == token.NEQ && an.IsNil(r.Y) && isNodePtr(r.X) }
	// the bookkeeping may be written by attachToFileParents itself or by a Fork method it calls per fork
	type vhost struct {
		fn          *ssa.Function
		callGuarded bool // every call of the helper sits behind "consumer != nil"
	}
	vhosts := []vhost{{attach, false}}
	an.Instrs(attach, func(in ssa.Instruction) {
		if cl := an.AsCallAny(in); cl != nil {
			if g := cl.Common().StaticCallee(); g != nil && g.Blocks != nil && g.Pkg == attach.Pkg && g.Signature.Recv() != nil && strings.Contains(g.Signature.Recv().Type().String(), "core.Fork") {
				guarded, _ := an.GuardedBy(in, realConsumer)
				vhosts = append(vhosts, vhost{g, guarded})
			}
		}
	})
	for _, vh := range vhosts {
		vh := vh
		an.Instrs(vh.fn, func(in ssa.Instruction) {
			mu, ok := in.(*ssa.MapUpdate)
			if !ok {
				return
			}
			ts := mu.Map.Type().String()
			switch {
			case strings.HasPrefix(ts, "map[string]map["): // fileArgs level: pArgs[arg] = {...}
				nArgs++
			case strings.Contains(ts, "]struct{}"): // nodes[setNode] = struct{}{}
				nArgs++
				g, _ := an.GuardedBy(in, realConsumer)
				c.Check("V5", "fileArgs-updated-also-for-nil-consumer@(*Node).attachToFileParents", in.Pos(), !g && !vh.callGuarded,
					"the argument's consumer set must be updated even when the consumer is the top-level (nil): that entry keeps final outputs alive")
			case strings.Contains(ts, "]map[string]"): // filePostNodes
				nPost++
				g, w := an.GuardedBy(in, realConsumer)
				c.Check("V5", "filePostNodes-only-for-real-consumers@(*Node).attachToFileParents", in.Pos(), g || vh.callGuarded,
					"the top-level pipeline must not be added as a file post-node (it never completes before VDR); "+c.WitnessString(w))
			}
		})
	}
	c.Floor("V5", "fileArgs updates in attachToFileParents", nArgs, 1)
	c.Floor("V5", "filePostNodes updates in attachToFileParents", nPost, 1)
	// (c) retains insert the nil consumer - for every fork, on every path, whether or not the argument already
	// has consumers (a retained output that a downstream call also consumes must survive that consumer)
	for _, name := range []string{"setupRetains", "(*Pipestance).buildForks"} {
		fn := c.NeedFunc(pkgCore, name)
		if fn == nil {
			continue
		}
		nilUpdate := func(in ssa.Instruction) bool {
			mu, ok := in.(*ssa.MapUpdate)
			return ok && an.IsNil(an.Strip(mu.Key))
		}
		// where the registration lives: the entry point itself or a Fork method it calls (depth 2)
		hosts := []*ssa.Function{fn}
		seenH := map[*ssa.Function]bool{fn: true}
		for i := 0; i < len(hosts) && i < 8; i++ {
			an.Instrs(hosts[i], func(in ssa.Instruction) {
				if cl := an.AsCallAny(in); cl != nil {
					if g := cl.Common().StaticCallee(); g != nil && g.Blocks != nil && g.Pkg == fn.Pkg && !seenH[g] && g.Signature.Recv() != nil && strings.Contains(g.Signature.Recv().Type().String(), "core.Fork") {
						seenH[g] = true
						hosts = append(hosts, g)
					}
				}
			})
		}
		decided := false
		for _, h := range hosts {
			has := false
			an.Instrs(h, func(in ssa.Instruction) {
				if nilUpdate(in) {
					has = true
				}
			})
			if !has {
				continue
			}
			decided = true
			if h != fn {
				// a helper called per fork: every path through it registers the nil consumer
				w := an.Query{Fn: h, Target: an.IsReturn, Barrier: nilUpdate}.Find()
				c.Check("V5", "retain-registers-nil-consumer@"+name, fn.Pos(), w == nil,
					"a retained output must be registered with the nil consumer for every fork on every path - also when the argument already has consumers, otherwise the file is reclaimed as soon as the last of them completes; helper "+an.FnName(h)+": "+c.WitnessString(w))
				continue
			}
			// in the entry point: every iteration of the innermost loop that registers does so on every path
			ok, why := true, ""
			for hd, body := range naturalLoops(h) {
				inner := false
				for b := range body {
					for _, in := range b.Instrs {
						if nilUpdate(in) {
							inner = true
						}
					}
				}
				if !inner {
					continue
				}
				// innermost: no other registering loop strictly inside
				innermost := true
				for hd2, body2 := range naturalLoops(h) {
					if hd2 == hd || !body[hd2] {
						continue
					}
					for b := range body2 {
						for _, in := range b.Instrs {
							if nilUpdate(in) {
								innermost = false
							}
						}
					}
				}
				if !innermost {
					continue
				}
				first := hd.Instrs[0]
				w := an.Query{Fn: h, After: first, Target: func(in ssa.Instruction) bool { return in == first }, Barrier: nilUpdate,
					BarrierEdge: func(from, to *ssa.BasicBlock) bool { return !body[to] }}.Find()
				if w != nil {
					ok, why = false, c.WitnessString(w)
				}
			}
			c.Check("V5", "retain-registers-nil-consumer@"+name, fn.Pos(), ok,
				"a retained output must be registered with the nil consumer for every fork on every path - also when the argument already has consumers, otherwise the file is reclaimed as soon as the last of them completes; "+why)
		}
		if !decided {
			c.Fail("V5", "retain-registers-nil-consumer@"+name, fn.Pos(), "no insertion of the nil consumer found in the function or in the Fork methods it calls")
		}
	}
	// (d) cloneFork copies both maps, including the nested per-entry maps
	clone := c.NeedFunc(pkgCore, "cloneFork")
	if clone != nil {
		for _, f := range []*types.Var{fileArgs, filePostNodes} {
			ok, why := copiesNestedMap(clone, f)
			c.Check("V5", "dynamic-fork-inherits("+f.Name()+")@cloneFork", clone.Pos(), ok,
				"a fork created by dynamic expansion must inherit the consumer bookkeeping (every entry and every nested entry), otherwise its files look unreferenced and are reclaimed at once: "+why)
		}
	}
}

// copiesNestedMap: fn copies src.f (a map of maps) entry by entry:
//   - every path to return ranges over src.f unless len(src.f) == 0,
//   - every outer iteration ranges over the entry's inner map unless it is nil,
//   - every inner iteration stores the inner key into a new map,
//   - a map update keyed by the outer key targets the new object's field f.
func copiesNestedMap(fn *ssa.Function, f *types.Var) (bool, string) {
	src := ssa.Value(fn.Params[0])
	var outer *ssa.Range
	an.Instrs(fn, func(in ssa.Instruction) {
		if r, ok := in.(*ssa.Range); ok && an.LoadsField(r.X, f) && an.RootOf(r.X) == src {
			outer = r
		}
	})
	if outer == nil {
		return false, "no range over the source fork's " + f.Name()
	}
	isLenF := func(v ssa.Value) bool {
		args, ok := an.IsBuiltinCall(v, "len")
		return ok && an.LoadsField(args[0], f)
	}
	zero := func(v ssa.Value) bool { return an.IsIntConst(v, 0) }
	w := an.Query{Fn: fn, Target: an.IsReturn,
		Barrier: func(in ssa.Instruction) bool { return in == ssa.Instruction(outer) },
		BarrierEdge: func(from, to *ssa.BasicBlock) bool {
			return an.EdgeHolds(from, to, func(r an.Rel) bool {
				if r.Op == token.ILLEGAL {
					return false
				}
				// len(src.f) <= 0 / == 0, and nothing else in the condition
				return (relEq(r, isLenF, zero) || (r.Op == token.LEQ && isLenF(r.X) && zero(r.Y))) && an.RootOf(an.Strip(lenArg(r))) == src
			})
		}}.Find()
	if w != nil {
		return false, "the copy of " + f.Name() + " can be skipped although the source map is not empty"
	}
	var onext *ssa.Next
	for _, r := range an.Referrers(outer) {
		if n, ok := r.(*ssa.Next); ok {
			onext = n
		}
	}
	if onext == nil {
		return false, "outer loop has no iteration"
	}
	t := an.NewTaint(0, nil)
	t.NoKeyFlow = true
	t.Add(onext)
	t.Run()
	var inner *ssa.Range
	an.Instrs(fn, func(in ssa.Instruction) {
		if r, ok := in.(*ssa.Range); ok && r != outer && t.Has(r.X) {
			inner = r
		}
	})
	if inner == nil {
		// maps.Clone(entry) per outer entry is the same deep copy (nil stays nil): every iteration must
		// pass the clone, and its result must be what is stored under the outer key
		var clone *ssa.Call
		an.Instrs(fn, func(in ssa.Instruction) {
			cl, ok := in.(*ssa.Call)
			if !ok || len(cl.Call.Args) != 1 || !t.Has(cl.Call.Args[0]) {
				return
			}
			g := cl.Call.StaticCallee()
			if g != nil && g.Origin() != nil {
				g = g.Origin()
			}
			if g != nil && g.Pkg != nil && g.Pkg.Pkg.Path() == "maps" && g.Name() == "Clone" {
				clone = cl
			}
		})
		if clone == nil {
			return false, "the nested maps are not copied (no range over the entry's inner map)"
		}
		wc := an.Query{Fn: fn, After: onext, Target: func(in ssa.Instruction) bool { return in == ssa.Instruction(onext) },
			Barrier: func(in ssa.Instruction) bool {
				mu, ok := in.(*ssa.MapUpdate)
				return ok && an.Strip(mu.Value) == ssa.Value(clone) && t.Has(mu.Key) && an.LoadsField(mu.Map, f) && an.RootOf(mu.Map) != src
			},
			BarrierEdge: func(from, to *ssa.BasicBlock) bool {
				cnd, tr, ok := an.EdgeCond(from, to)
				if !ok {
					return false
				}
				ex, isEx := cnd.(*ssa.Extract)
				return isEx && ex.Tuple == ssa.Value(onext) && ex.Index == 0 && !tr
			}}.Find()
		if wc != nil {
			return false, "an entry can be skipped without storing a clone of its inner map into the new fork"
		}
		return true, "outer entries are copied with a clone of each nested map"
	}
	exitEdge := func(nx *ssa.Next) func(from, to *ssa.BasicBlock) bool {
		return func(from, to *ssa.BasicBlock) bool {
			cnd, tr, ok := an.EdgeCond(from, to)
			if !ok {
				return false
			}
			ex, isEx := cnd.(*ssa.Extract)
			return isEx && ex.Tuple == ssa.Value(nx) && ex.Index == 0 && !tr
		}
	}
	w = an.Query{Fn: fn, After: onext, Target: func(in ssa.Instruction) bool { return in == ssa.Instruction(onext) },
		Barrier: func(in ssa.Instruction) bool { return in == ssa.Instruction(inner) },
		BarrierEdge: func(from, to *ssa.BasicBlock) bool {
			if exitEdge(onext)(from, to) {
				return true
			}
			return an.EdgeHolds(from, to, func(r an.Rel) bool {
				return r.Op == token.EQL && an.IsNil(r.Y) && t.Has(r.X) // m == nil
			})
		}}.Find()
	if w != nil {
		return false, "an entry's inner map can be skipped although it is not nil"
	}
	var inext *ssa.Next
	for _, r := range an.Referrers(inner) {
		if n, ok := r.(*ssa.Next); ok {
			inext = n
		}
	}
	if inext == nil {
		return false, "inner loop has no iteration"
	}
	ti := an.NewTaint(0, nil)
	ti.NoKeyFlow = true
	ti.Add(inext)
	ti.Run()
	w = an.Query{Fn: fn, After: inext, Target: func(in ssa.Instruction) bool { return in == ssa.Instruction(inext) },
		Barrier: func(in ssa.Instruction) bool {
			mu, ok := in.(*ssa.MapUpdate)
			return ok && ti.Has(mu.Key)
		},
		BarrierEdge: exitEdge(inext)}.Find()
	if w != nil {
		return false, "an inner entry is not stored into the copy"
	}
	// the outer key is stored into the new fork's field
	stored := false
	an.Instrs(fn, func(in ssa.Instruction) {
		mu, ok := in.(*ssa.MapUpdate)
		if ok && an.LoadsField(mu.Map, f) && an.RootOf(mu.Map) != src && t.Has(mu.Key) {
			stored = true
		}
	})
	if !stored {
		return false, "the outer entries are not stored into the new fork's " + f.Name()
	}
	return true, "outer and nested entries are copied"
}

func lenArg(r an.Rel) ssa.Value {
	for _, v := range []ssa.Value{r.X, r.Y} {
		if args, ok := an.IsBuiltinCall(v, "len"); ok {
			return args[0]
		}
	}
	return nil
}

func isNodePtr(v ssa.Value) bool {
	return strings.HasSuffix(v.Type().String(), "core.Node")
}

func ruleV6(c *an.Ctx) {
	p := c.P
	lock := p.Field(pkgCore, "Fork", "storageLock")
	if lock == nil {
		c.Undecided("anchor", "Fork.storageLock", token.NoPos, "field not found")
		return
	}
	exceptions := map[string]string{
		"(*Node).attachToFileParents": "constructor phase: called from NewNode/NewPipestance while the graph is being built, before any goroutine exists",
		"setupRetains":                "constructor phase: called from Stagestance.buildForks",
		"(*Pipestance).buildForks":    "constructor phase",
		"cloneFork":                   "source fork is read while the run loop goroutine (the only stepping goroutine) expands forks; the clone is not shared yet",
	}
	lc := an.NewLockChecker(p, lock)
	fns := coreFns(c)
	for _, fname := range []string{"fileArgs", "filePostNodes", "fileParamMap"} {
		f := p.Field(pkgCore, "Fork", fname)
		if f == nil {
			c.Undecided("anchor", "Fork."+fname, token.NoPos, "field not found")
			continue
		}
		res := lc.CheckField(fns, f)
		c.Floor("V6", "accesses of Fork."+fname, len(res), 1)
		for _, r := range res {
			kind := "read"
			if r.Write {
				kind = "write"
			}
			owner := an.FnName(an.Outermost(r.Fn))
			key := fmt.Sprintf("%s(Fork.%s)@%s", kind, fname, an.FnName(r.Fn))
			if !r.OK {
				if why, ok := exceptions[owner]; ok {
					c.Pass("V6", key, r.Instr.Pos(), "tabled exception: "+why)
					continue
				}
				// an unexported helper reached only from tabled functions shares their phase
				var allowed []string
				for n := range exceptions {
					allowed = append(allowed, n)
				}
				if cs := effectiveCallers(p, an.Outermost(r.Fn), allowed); len(cs) > 0 {
					all := true
					for _, n := range cs {
						if _, ok := exceptions[n]; !ok {
							all = false
						}
					}
					if all && an.Outermost(r.Fn).Object() != nil && !an.Outermost(r.Fn).Object().Exported() {
						c.Pass("V6", key, r.Instr.Pos(), "helper reached only from "+strings.Join(cs, ", ")+": "+exceptions[cs[0]])
						continue
					}
				}
			}
			c.Check("V6", key, r.Instr.Pos(), r.OK, r.Reason)
		}
	}
}

// V7 alias completeness.  A stage may name a file through a path that crosses a symlinked
// directory; the file cache is keyed by every logical name of a file so that an argument naming it
// either way keeps it alive.  The fully resolved name can only come from filepath.EvalSymlinks
// (the Readlink loop resolves the last component only).  Necessary condition: once the file is
// known to exist, every path to a return of getLogicalFileNames consults EvalSymlinks, and the
// resolved name can reach the returned list.
func ruleV7(c *an.Ctx) {
	fn := c.NeedFunc(pkgCore, "getLogicalFileNames")
	if fn == nil {
		return
	}
	var lstat *ssa.Call
	var evals []*ssa.Call
	an.Instrs(fn, func(in ssa.Instruction) {
		if call, ok := an.IsPkgFuncCall(in, "os", "Lstat"); ok && lstat == nil {
			if cc, ok := call.(*ssa.Call); ok && len(cc.Call.Args) == 1 && an.RootOf(cc.Call.Args[0]) == ssa.Value(fn.Params[0]) {
				lstat = cc
			}
		}
		if call, ok := an.IsPkgFuncCall(in, "path/filepath", "EvalSymlinks"); ok {
			if cc, ok := call.(*ssa.Call); ok {
				evals = append(evals, cc)
			}
		}
	})
	if lstat == nil {
		c.Undecided("V7", "resolved-name-always-computed@getLogicalFileNames", fn.Pos(), "no os.Lstat(name) on the parameter found")
		return
	}
	isErrOfLstat := func(v ssa.Value) bool {
		ex, ok := v.(*ssa.Extract)
		return ok && ex.Tuple == ssa.Value(lstat) && ex.Index == 1
	}
	w := an.Query{Fn: fn, After: lstat, Target: an.IsReturn,
		Barrier: func(x ssa.Instruction) bool {
			for _, e := range evals {
				if x == ssa.Instruction(e) {
					return true
				}
			}
			return false
		},
		BarrierEdge: func(from, to *ssa.BasicBlock) bool {
			return an.EdgeHolds(from, to, func(r an.Rel) bool {
				return r.Op == token.NEQ && isErrOfLstat(r.X) && an.IsNil(r.Y)
			})
		}}.Find()
	c.Check("V7", "resolved-name-always-computed@getLogicalFileNames", lstat.Pos(), w == nil && len(evals) > 0,
		"once the file exists every returning path must consult filepath.EvalSymlinks: a file reached through a symlinked directory is otherwise cached under one name only and an argument naming it the other way does not keep it alive; "+c.WitnessString(w))
	// the resolved name is appended to the result
	flows := false
	an.Instrs(fn, func(in ssa.Instruction) {
		call, ok := in.(*ssa.Call)
		if !ok {
			return
		}
		if args, isApp := an.IsBuiltinCall(call, "append"); isApp && len(args) == 2 {
			if v := storedElem(args[1]); v != nil {
				if ex, ok := v.(*ssa.Extract); ok && ex.Index == 0 {
					for _, e := range evals {
						if ex.Tuple == ssa.Value(e) {
							flows = true
						}
					}
				}
			}
		}
	})
	c.Check("V7", "resolved-name-returned@getLogicalFileNames", fn.Pos(), flows, "the EvalSymlinks result must be appended to the list of names")
}

// V8 whole-call references.  A consumer bound to a whole call (p = PRODUCER), a top-level return of a
// call and a retain of a struct register their keep-alive under the empty output id, and
// removeEmptyFileArgs / addFilesToArgsMappings resolve that id with LazyArgumentMap.jsonPath("").  The
// empty path must denote the whole outs map; if it resolves to nothing the argument is judged to name
// no files, is dropped, and the producer's files are reclaimed while the consumer still needs them.
// Necessary condition: jsonPath returns its receiver on the edge where the path is empty, or every
// call of it is dominated by a test that the path is not empty.
func ruleV8(c *an.Ctx) {
	p := c.P
	fn := c.NeedFunc(pkgCore, "(LazyArgumentMap).jsonPath")
	if fn == nil {
		return
	}
	// a thin wrapper (jsonPath(p) = typedJsonPath(p, nil, nil)) is decided on what it delegates to
	fn = delegateOf(fn)
	if len(fn.Params) < 2 {
		c.Undecided("V8", "empty-path-is-whole-map@(LazyArgumentMap).jsonPath", fn.Pos(), "unexpected signature")
		return
	}
	recv, path := ssa.Value(fn.Params[0]), ssa.Value(fn.Params[1])
	isEmptyTest := func(v ssa.Value, op token.Token) func(r an.Rel) bool {
		return func(r an.Rel) bool {
			chk := func(x, y ssa.Value, o token.Token) bool {
				if x == v && an.IsStringConst(y, "") {
					return o == op
				}
				if args, ok := an.IsBuiltinCall(x, "len"); ok && len(args) == 1 && args[0] == v && an.IsIntConst(y, 0) {
					if op == token.EQL {
						return o == token.EQL || o == token.LEQ
					}
					return o == token.NEQ || o == token.GTR
				}
				return false
			}
			f := r.Flip()
			return chk(r.X, r.Y, r.Op) || chk(f.X, f.Y, f.Op)
		}
	}
	inFn := false
	an.Instrs(fn, func(in ssa.Instruction) {
		r, ok := in.(*ssa.Return)
		if !ok || len(r.Results) != 1 {
			return
		}
		v := an.RetVal(r, 0)
		if mi, ok := v.(*ssa.MakeInterface); ok && mi.X == recv {
			if g, _ := an.GuardedBy(r, isEmptyTest(path, token.EQL)); g {
				inFn = true
			}
		}
	})
	callersOK := true
	nCalls := 0
	for caller, sites := range p.Callers(fn) {
		_ = caller
		for _, s := range sites {
			nCalls++
			args := s.Common().Args
			if len(args) < 2 {
				callersOK = false
				continue
			}
			if g, _ := an.GuardedBy(s.(ssa.Instruction), isEmptyTest(args[1], token.NEQ)); !g {
				callersOK = false
			}
		}
	}
	c.Check("V8", "empty-path-is-whole-map@(LazyArgumentMap).jsonPath", fn.Pos(), inFn || (callersOK && nCalls > 0),
		fmt.Sprintf("whole-call references keep files alive under the empty output id; jsonPath must return the whole map for the empty path (handled in the function: %v) or every one of its %d call sites must exclude the empty path (%v); otherwise such an argument is judged to name no files and the producer's files are removed while still needed", inFn, nCalls, callersOK))
}

func ctx0(ctx []*ssa.Call, i int) *ssa.Call { return ctx[i] }

// delegateOf follows thin wrappers: a function whose whole body is `return g(params..., extra
// constants)` with g in the same package is represented by g (two levels at most).
func delegateOf(fn *ssa.Function) *ssa.Function {
	for depth := 0; depth < 2; depth++ {
		if fn == nil || len(fn.Blocks) != 1 {
			return fn
		}
		var call *ssa.Call
		n := 0
		ok := true
		for _, in := range fn.Blocks[0].Instrs {
			switch x := in.(type) {
			case *ssa.Call:
				call = x
				n++
			case *ssa.Return, *ssa.DebugRef, *ssa.MakeInterface, *ssa.ChangeInterface, *ssa.ChangeType:
			default:
				ok = false
			}
		}
		if !ok || n != 1 || call == nil {
			return fn
		}
		g := call.Call.StaticCallee()
		if g == nil || g.Blocks == nil || g.Pkg != fn.Pkg || len(call.Call.Args) < len(fn.Params) {
			return fn
		}
		for i, prm := range fn.Params {
			if an.Strip(call.Call.Args[i]) != ssa.Value(prm) {
				return fn
			}
		}
		fn = g
	}
	return fn
}
