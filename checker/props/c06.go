package props

import (
	"fmt"
	"go/token"
	"go/types"
	"strings"

	"mrocheck/an"

	"golang.org/x/tools/go/ssa"
)

func init() {
	Registry["C06"] = Entry{
		Run: runC06,
		Explanation: "Decides structural necessary conditions of 'a failing job fails the pipestance, blocks only its dependents, is reported': " +
			"F1 failure markers take precedence over every other state in Metadata._getStateNoLock, " +
			"F2 the job monitor writes _complete only in runner.Complete, only when no quota error was written, and Complete is reached only on err==nil; every failure exit writes _errors/_assert; sigToErr never turns an error into nil, " +
			"F3 the local job manager reports a failed process unless it re-enqueues or the job wrote _errors itself, " +
			"F4 every _complete written by mrp for a fork is dominated by successful output validation (or nothing to validate); the join runs only if every chunk's outs were read and verified; a _stage_defs parse error is reported, " +
			"F5 a failed node never releases its post-nodes and Pipestance.GetState reports Complete only if every node is complete/disabled, " +
			"F6 mrp exits with success status only from the completed-cleanup path. " +
			"F7 a verdict-returning function that records a job failure returns false afterwards, F8 a function replacing a live fork's metadata objects drops the cached metadata list, F9 every fork metadata object into which mrp writes _errors is cleared by the partial reset (one known finding: Fork.metadata). " +
			"F10 a split that is submitted again stores a fresh chunk list first (while doChunks builds the list only when it is empty). " +
			"Round 6: F11 a decode of _stage_defs into the pointer Fork.stageDefs is followed by a nil test; F12 preloaded chunks can reach verifyDef before they are stepped; F13 (= R7b) orphaned local nodes are reset at re-attach. " +
			"F14 a non-zero time is stored into Metadata.notRunningSince only under IsZero() of that field (the first observation stands). " +
			"F15 every non-error return of Node.refreshState has passed the endRefresh pass; F16 in doJoin the chunk's outs are parsed before they are copied to the join. " +
			"F17 in martian/adapter and cmd/mrjob no defer that can reach os.Exit is registered after another defer. " +
			"NOT decided: error text naming the stage, retry classification, the Python adapter.",
		Assumptions: commonAssumptions,
	}
}

func runC06(c *an.Ctx) {
	ruleF1(c)
	ruleF2(c)
	ruleF3(c)
	ruleF4(c)
	ruleF5(c)
	ruleF6(c)
	ruleF7(c)
	ruleF8(c)
	ruleF9(c)
	ruleF10(c)
	ruleF11(c)
	ruleF12(c)
	ruleOrphanReset(c, "F13")
	ruleF14(c)
	ruleF15(c)
	ruleF16(c)
	ruleF17(c)
}

func existsCallOf(p *an.Prog, v ssa.Value, file string) bool {
	call, ok := v.(*ssa.Call)
	if !ok {
		return false
	}
	f := call.Call.StaticCallee()
	if f == nil || (f.Name() != "_existsNoLock" && f.Name() != "exists") || len(call.Call.Args) != 2 {
		return false
	}
	return an.IsConst(call.Call.Args[1], p.Const(pkgCore, file))
}

func ruleF1(c *an.Ctx) {
	p := c.P
	fn := c.NeedFunc(pkgCore, "(*Metadata)._getStateNoLock")
	if fn == nil {
		return
	}
	n := 0
	an.Instrs(fn, func(in ssa.Instruction) {
		r, ok := in.(*ssa.Return)
		if !ok || len(r.Results) < 1 {
			return
		}
		if isState(p, an.RetVal(r, 0), "Failed") {
			return
		}
		n++
		name := an.Path(an.RetVal(r, 0))
		for _, marker := range []string{"Errors", "Assert"} {
			g, w := an.GuardedBy(r, func(rel an.Rel) bool {
				return rel.Op == token.ILLEGAL && !rel.Truth && existsCallOf(p, rel.X, marker)
			})
			c.Check("F1", "failure-precedence(return "+name+" only if no "+marker+")@(*Metadata)._getStateNoLock", r.Pos(), g,
				"a metadata object with an "+marker+" file must be Failed whatever else exists; "+c.WitnessString(w))
		}
	})
	c.Floor("F1", "non-Failed returns in _getStateNoLock", n, 1)
	// failed returns: Errors/Assert present => Failed
	for _, marker := range []string{"Errors", "Assert"} {
		found := false
		for _, b := range fn.Blocks {
			for _, s := range b.Succs {
				cnd, t, ok := an.EdgeCond(b, s)
				if !ok {
					continue
				}
				rel := an.Normalize(cnd, t)
				if rel.Op == token.ILLEGAL && rel.Truth && existsCallOf(p, rel.X, marker) {
					// all returns reachable return Failed
					okAll := true
					seen := map[*ssa.BasicBlock]bool{}
					var walk func(x *ssa.BasicBlock)
					walk = func(x *ssa.BasicBlock) {
						if seen[x] {
							return
						}
						seen[x] = true
						for _, in := range x.Instrs {
							if r, ok := in.(*ssa.Return); ok && !isState(p, an.RetVal(r, 0), "Failed") {
								okAll = false
							}
						}
						for _, y := range x.Succs {
							walk(y)
						}
					}
					walk(s)
					found = okAll
				}
			}
		}
		c.Check("F1", "marker-means-failed("+marker+")@(*Metadata)._getStateNoLock", fn.Pos(), found,
			"the presence of "+marker+" must yield state Failed")
	}
}

func ruleF2(c *an.Ctx) {
	p := c.P
	fns := c.P.FuncsOf(pkgMrjob)
	if len(fns) == 0 {
		c.Undecided("anchor", "package cmd/mrjob", token.NoPos, "package not loaded")
		return
	}
	complete := c.NeedFunc(pkgMrjob, "(*runner).Complete")
	fail := c.NeedFunc(pkgMrjob, "(*runner).Fail")
	waitLoop := c.NeedFunc(pkgMrjob, "(*runner).WaitLoop")
	sigToErr := c.NeedFunc(pkgMrjob, "sigToErr")
	if complete == nil || fail == nil || waitLoop == nil || sigToErr == nil {
		return
	}
	completeFile := p.Const(pkgCore, "CompleteFile")
	n := 0
	for _, fn := range fns {
		an.Instrs(fn, func(in ssa.Instruction) {
			if !mayWriteFile(p, in, "CompleteFile") {
				return
			}
			n++
			key := "write(_complete)@" + an.FnName(fn)
			if fn != complete {
				c.Fail("F2", key, in.Pos(), "the job monitor may write _complete only in runner.Complete")
				return
			}
			g, w := an.GuardedBy(in, func(r an.Rel) bool {
				return r.Op == token.EQL && (an.IsConst(r.Y, completeFile) || an.IsConst(r.X, completeFile))
			})
			c.Check("F2", key+":target-is-complete", in.Pos(), g, "the write of _complete must be guarded by target == CompleteFile; "+c.WitnessString(w))
			// a path that wrote _errors (quota exceeded) must not write _complete: the guard variable
			// carries CompleteFile only along paths that did not write _errors
			var guardVar ssa.Value
			an.GuardedBy(in, func(r an.Rel) bool {
				if r.Op == token.EQL && an.IsConst(r.Y, completeFile) {
					guardVar = r.X
				} else if r.Op == token.EQL && an.IsConst(r.X, completeFile) {
					guardVar = r.Y
				}
				return false
			})
			an.Instrs(fn, func(e ssa.Instruction) {
				if !writesFile(p, e, "Errors") {
					return
				}
				key2 := key + ":not-after-quota-error"
				if !an.Reachable(fn, e, func(x ssa.Instruction) bool { return x == in }) {
					c.Pass("F2", key2, e.Pos(), "the _complete write is not reachable after this _errors write")
					return
				}
				okv := false
				why := "the guard of the _complete write does not depend on a variable that records the error"
				if ph, isPhi := guardVar.(*ssa.Phi); isPhi {
					okv, why = true, "target carries CompleteFile only on paths without the _errors write"
					web := map[*ssa.Phi]bool{}
					var collect func(x *ssa.Phi)
					collect = func(x *ssa.Phi) {
						if web[x] {
							return
						}
						web[x] = true
						for _, ed := range x.Edges {
							if y, ok := ed.(*ssa.Phi); ok {
								collect(y)
							}
						}
					}
					collect(ph)
					for x := range web {
						for i, ed := range x.Edges {
							if an.IsConst(ed, completeFile) {
								pred := x.Block().Preds[i]
								term := pred.Instrs[len(pred.Instrs)-1]
								if e.Block() == pred || an.Reachable(fn, e, func(y ssa.Instruction) bool { return y == term }) {
									okv, why = false, "after writing _errors the target variable can still be CompleteFile"
								}
							}
						}
					}
				}
				c.Check("F2", key2, e.Pos(), okv, "after the monitor wrote _errors (quota exceeded) it must not also write _complete: "+why)
			})
		})
	}
	c.Floor("F2", "writes of _complete in cmd/mrjob", n, 1)
	// Complete is called only from WaitLoop, on the err == nil edge
	got := effectiveCallers(p, complete, []string{"(*runner).WaitLoop"})
	c.Check("F2", "callers((*runner).Complete)", complete.Pos(), sameSet(got, []string{"(*runner).WaitLoop"}), fmt.Sprintf("callers: %v", got))
	for _, call := range callsTo(waitLoop, complete) {
		g, w := an.GuardedBy(call.(ssa.Instruction), func(r an.Rel) bool { return r.Op == token.EQL && an.IsNil(r.Y) && isErrorType(r.X) })
		c.Check("F2", "complete-only-on-nil-error@(*runner).WaitLoop", call.Pos(), g, "runner.Complete must be dominated by err == nil; "+c.WitnessString(w))
	}
	// every exit of WaitLoop passes Fail or Complete
	ok, w := an.MustPass(waitLoop, nil, an.IsReturn, func(in ssa.Instruction) bool { return an.CalleeIs(in, fail, complete) })
	c.Check("F2", "waitloop-ends-in-fail-or-complete@(*runner).WaitLoop", waitLoop.Pos(), ok, "every way out of WaitLoop must record an outcome; "+c.WitnessString(w))
	// Fail writes Errors or Assert before exiting
	okF, wF := an.MustPass(fail, nil, func(in ssa.Instruction) bool {
		if _, ok := an.IsPkgFuncCall(in, "os", "Exit"); ok {
			return true
		}
		return an.IsReturn(in)
	}, func(in ssa.Instruction) bool {
		call := an.AsCall(in)
		if call == nil || call.Common().StaticCallee() == nil || call.Common().StaticCallee().Name() != "WriteRaw" {
			return false
		}
		return onlyConsts(p, call.Common().Args[1], []string{"Errors", "Assert"}, 0)
	})
	c.Check("F2", "fail-writes-errors-or-assert@(*runner).Fail", fail.Pos(), okF, "runner.Fail must write _errors or _assert before the process exits; "+c.WitnessString(wF))
	// sigToErr never returns a nil constant
	bad := false
	an.Instrs(sigToErr, func(in ssa.Instruction) {
		if r, ok := in.(*ssa.Return); ok && an.IsNil(an.RetVal(r, 0)) {
			bad = true
		}
	})
	c.Check("F2", "sigToErr-preserves-failure", sigToErr.Pos(), !bad, "sigToErr must not convert an error into nil")
	// HandleSignal writes Errors
	hs := c.NeedFunc(pkgMrjob, "(*runner).HandleSignal")
	if hs != nil {
		md := &an.MustDo{Pred: func(in ssa.Instruction) bool { return writesFile(p, in, "Errors") }, Depth: 1}
		c.Check("F2", "signal-writes-errors@(*runner).HandleSignal", hs.Pos(), md.Fn(hs), "a handled termination signal must leave an _errors file for the job")
	}
}

func isErrorType(v ssa.Value) bool {
	return v.Type().String() == "error"
}

// onlyConsts: v is one of the named core constants, or a phi of them.
func onlyConsts(p *an.Prog, v ssa.Value, names []string, d int) bool {
	if d > 4 {
		return false
	}
	if ph, ok := v.(*ssa.Phi); ok {
		for _, e := range ph.Edges {
			if !onlyConsts(p, e, names, d+1) {
				return false
			}
		}
		return true
	}
	for _, n := range names {
		if an.IsConst(v, p.Const(pkgCore, n)) {
			return true
		}
	}
	return false
}

func ruleF3(c *an.Ctx) {
	p := c.P
	enqueue := c.NeedFunc(pkgCore, "(*LocalJobManager).Enqueue")
	execLocal := c.NeedFunc(pkgCore, "executeLocal")
	werr := c.NeedFunc(pkgCore, "(*Metadata).WriteErrorString")
	if enqueue == nil || execLocal == nil || werr == nil {
		return
	}
	n := 0
	for _, fn := range an.WithAnon(enqueue) {
		for _, call := range callsTo(fn, execLocal) {
			if call.Parent() != fn {
				continue
			}
			n++
			cv := call.Value()
			// the job already wrote _errors: os.IsNotExist(err of readRawSafe(Errors)) is false
			alreadyReported := func(from, to *ssa.BasicBlock) bool {
				return an.EdgeHolds(from, to, func(r an.Rel) bool {
					if r.Op == token.ILLEGAL && !r.Truth {
						if ic, ok := r.X.(*ssa.Call); ok {
							if f := ic.Call.StaticCallee(); f != nil && f.Name() == "IsNotExist" && len(ic.Call.Args) == 1 {
								if ex, ok := ic.Call.Args[0].(*ssa.Extract); ok {
									if rc, ok := ex.Tuple.(*ssa.Call); ok && rc.Call.StaticCallee() != nil &&
										strings.HasPrefix(rc.Call.StaticCallee().Name(), "readRaw") &&
										an.IsConst(rc.Call.Args[1], p.Const(pkgCore, "Errors")) {
										return true
									}
								}
							}
						}
					}
					return false
				})
			}
			// a private helper all of whose paths write _errors or find it already written
			helperMemo := map[*ssa.Function]bool{}
			var reportsAlways func(h *ssa.Function, d int) bool
			isReport := func(in ssa.Instruction, d int) bool {
				if an.CalleeIs(in, werr, enqueue) {
					return true
				}
				if cl, ok := in.(*ssa.Call); ok {
					if h := cl.Call.StaticCallee(); h != nil && h.Blocks != nil && h.Pkg == enqueue.Pkg && h != execLocal && d < 2 {
						return reportsAlways(h, d+1)
					}
				}
				return false
			}
			reportsAlways = func(h *ssa.Function, d int) bool {
				if v, ok := helperMemo[h]; ok {
					return v
				}
				helperMemo[h] = false
				w := an.Query{Fn: h, Target: an.IsExit,
					Barrier:     func(in ssa.Instruction) bool { return isReport(in, d) },
					BarrierEdge: alreadyReported}.Find()
				helperMemo[h] = w == nil
				return w == nil
			}
			w := an.Query{Fn: fn, After: call.(ssa.Instruction), Target: an.IsExit,
				Barrier: func(in ssa.Instruction) bool { return isReport(in, 0) },
				BarrierEdge: func(from, to *ssa.BasicBlock) bool {
					return an.EdgeHolds(from, to, func(r an.Rel) bool {
						if r.Op == token.EQL && r.X == ssa.Value(cv) && an.IsNil(r.Y) {
							return true // success
						}
						return alreadyReported(from, to)
					})
				}}.Find()
			c.Check("F3", "local-failure-reported@"+an.FnName(fn), call.Pos(), w == nil,
				"a local job whose process failed must be re-enqueued or get an _errors file unless it wrote one itself; "+c.WitnessString(w))
		}
	}
	c.Floor("F3", "executeLocal calls in Enqueue", n, 1)
}

func ruleF4(c *an.Ctx) {
	p := c.P
	verifyOutput := c.NeedFunc(pkgCore, "(*Fork).verifyOutput")
	verifyPipe := c.NeedFunc(pkgCore, "(*Fork).verifyPipelineOutput")
	chunkVerify := c.NeedFunc(pkgCore, "(*Chunk).verifyOutput")
	split := c.NeedFunc(pkgCore, "(*Fork).Split")
	forkMeta := p.Field(pkgCore, "Fork", "metadata")
	outParamsList := p.Field(pkgSyntax, "OutParams", "List")
	if verifyOutput == nil || verifyPipe == nil || chunkVerify == nil || split == nil || forkMeta == nil || outParamsList == nil {
		c.Undecided("anchor", "F4 anchors", token.NoPos, "verifyOutput/verifyPipelineOutput/Split/Fork.metadata/OutParams.List not found")
		return
	}
	verifiedOK := func(r an.Rel) bool {
		if r.Op != token.ILLEGAL || !r.Truth {
			return false
		}
		ex, ok := r.X.(*ssa.Extract)
		if !ok || ex.Index != 0 {
			return false
		}
		call, ok := ex.Tuple.(*ssa.Call)
		return ok && (call.Call.StaticCallee() == verifyOutput || call.Call.StaticCallee() == verifyPipe)
	}
	nothingToValidate := func(r an.Rel) bool {
		// len(OutParams().List) == 0   |  NOT (len > 0)
		isLenList := func(v ssa.Value) bool {
			args, ok := an.IsBuiltinCall(v, "len")
			return ok && an.LoadsField(args[0], outParamsList)
		}
		zero := func(v ssa.Value) bool { return an.IsIntConst(v, 0) }
		if relEq(r, isLenList, zero) {
			return true
		}
		return r.Op == token.LEQ && isLenList(r.X) && zero(r.Y)
	}
	notSplit := func(r an.Rel) bool {
		if r.Op != token.ILLEGAL || r.Truth {
			return false
		}
		call, ok := r.X.(*ssa.Call)
		return ok && call.Call.StaticCallee() == split
	}
	nFork, nStub := 0, 0
	for _, fn := range coreFns(c) {
		an.Instrs(fn, func(in ssa.Instruction) {
			if !writesFile(p, in, "CompleteFile") {
				return
			}
			call := an.AsCall(in)
			recv := call.Common().Args[0]
			key := "write(_complete on " + an.Path(recv) + ")@" + an.FnName(fn)
			if an.LoadsField(recv, forkMeta) {
				nFork++
				g1, _ := an.GuardedBy(in, verifiedOK)
				g2, _ := an.GuardedBy(in, nothingToValidate)
				c.Check("F4", key+":validated", in.Pos(), g1 || g2,
					"a fork may be marked complete only after its outputs validated against the declared out params (or there are none)")
				if an.FnName(fn) == "(*Fork).stepPipeline" {
					g3, w := an.GuardedBy(in, func(r an.Rel) bool { return r.Op == token.EQL && an.IsNil(r.Y) && isErrorType(r.X) })
					c.Check("F4", key+":outputs-resolved", in.Pos(), g3, "pipeline outputs must have resolved without error; "+c.WitnessString(w))
				}
				return
			}
			p2 := an.Path(recv)
			if strings.HasSuffix(p2, "split_metadata") || strings.HasSuffix(p2, "join_metadata") {
				nStub++
				g, w := an.GuardedBy(in, notSplit)
				if !g && guardedAtAllCalls(p, fn, notSplit, 0) {
					g = true // a helper that writes the stub, called only where the stage does not split
				}
				c.Check("F4", key+":stub-only-for-non-splitting", in.Pos(), g,
					"a split/join phase may be stubbed complete by mrp only for stages that do not split; "+c.WitnessString(w))
				return
			}
			c.Undecided("F4", key, in.Pos(), "unclassified write of _complete in package core")
		})
	}
	c.Floor("F4", "fork-level writes of _complete", nFork, 1)
	c.Floor("F4", "stub writes of _complete", nStub, 1)

	// doComplete: an unreadable join _outs reports an error and returns
	doComplete := c.NeedFunc(pkgCore, "(*Fork).doComplete")
	if doComplete != nil {
		for _, fn := range []*ssa.Function{doComplete} {
			an.Instrs(fn, func(in ssa.Instruction) {
				if !writesFile(p, in, "CompleteFile") {
					return
				}
				// any read error edge must not reach the complete write
				for _, b := range fn.Blocks {
					for _, s := range b.Succs {
						cnd, t, ok := an.EdgeCond(b, s)
						if !ok {
							continue
						}
						r := an.Normalize(cnd, t)
						if r.Op == token.NEQ && an.IsNil(r.Y) && isErrorType(r.X) && fromMetadataRead(r.X) {
							reach := reachFromBlock(s, func(x ssa.Instruction) bool { return x == in })
							c.Check("F4", "unreadable-outs-not-complete@(*Fork).doComplete", s.Instrs[0].Pos(), !reach,
								"if the join's _outs cannot be read the fork must not be marked complete")
						}
					}
				}
			})
		}
	}

	// doJoin: the join runs only if every chunk's outs were read and verified
	doJoin := c.NeedFunc(pkgCore, "(*Fork).doJoin")
	runJoin := c.NeedFunc(pkgCore, "(*Node).runJoin")
	if doJoin != nil && runJoin != nil {
		joins := callsTo(doJoin, runJoin)
		fam := familyOf(p, doJoin, 3)
		for _, j := range joins {
			nv, nr := 0, 0
			for _, g := range fam {
				for _, v := range callsTo(g, chunkVerify) {
					if v.Value() == nil {
						continue
					}
					nv++
					vv := v.Value()
					site := allSite{fn: v.Parent(), S: v.(ssa.Instruction), desc: "chunk.verifyOutput", ok: func(r an.Rel) bool {
						return r.Op == token.ILLEGAL && r.Truth && r.X == ssa.Value(vv)
					}}
					ok, why := allChain(p, doJoin, fam, j.(ssa.Instruction), site, 0)
					c.Check("F4", "join-only-if-chunk-outputs-verified@(*Fork).doJoin", v.Pos(), ok,
						"the join may run only if every chunk's outputs verified: "+why)
				}
				an.Instrs(g, func(in ssa.Instruction) {
					call, ok := in.(*ssa.Call)
					if !ok || call.Call.StaticCallee() == nil || call.Call.StaticCallee().Name() != "read" || len(call.Call.Args) < 2 ||
						!an.IsConst(call.Call.Args[1], p.Const(pkgCore, "OutsFile")) {
						return
					}
					nr++
					site := allSite{fn: g, S: in, desc: "read(_outs)", ok: func(r an.Rel) bool {
						if r.Op != token.EQL || !an.IsNil(r.Y) {
							return false
						}
						ex, ok := r.X.(*ssa.Extract)
						return ok && ex.Tuple == ssa.Value(call) && ex.Index == 1
					}}
					ok2, why := allChain(p, doJoin, fam, j.(ssa.Instruction), site, 0)
					c.Check("F4", "join-only-if-chunk-outs-readable@(*Fork).doJoin", in.Pos(), ok2,
						"the join may run only if every chunk's _outs could be read: "+why)
				})
			}
			c.Floor("F4", "chunk.verifyOutput calls in doJoin", nv, 1)
			c.Floor("F4", "chunk _outs reads in doJoin", nr, 1)
		}
	}
	// doChunks: a _stage_defs parse error is reported
	doChunks := c.NeedFunc(pkgCore, "(*Fork).doChunks")
	werr := c.NeedFunc(pkgCore, "(*Metadata).WriteErrorString")
	if doChunks != nil && werr != nil {
		n := 0
		an.Instrs(doChunks, func(in ssa.Instruction) {
			call, ok := in.(*ssa.Call)
			if !ok || call.Call.StaticCallee() == nil {
				return
			}
			direct := func(x ssa.Instruction) bool {
				cl, ok := x.(*ssa.Call)
				return ok && cl.Call.StaticCallee() != nil && cl.Call.StaticCallee().Name() == "ReadInto" && len(cl.Call.Args) > 1 &&
					an.IsConst(cl.Call.Args[1], p.Const(pkgCore, "StageDefsFile"))
			}
			if !direct(call) {
				// a helper of the package that reads the file on every path and hands back the error
				h := call.Call.StaticCallee()
				res := h.Signature.Results()
				if h.Blocks == nil || h.Pkg != doChunks.Pkg || res.Len() != 1 || !isErrorT(res.At(0).Type()) {
					return
				}
				if md := (&an.MustDo{Pred: direct, Depth: 0}); !md.Fn(h) {
					return
				}
			}
			n++
			for _, b := range doChunks.Blocks {
				for _, s := range b.Succs {
					cnd, t, ok := an.EdgeCond(b, s)
					if !ok {
						continue
					}
					r := an.Normalize(cnd, t)
					if r.Op == token.NEQ && r.X == ssa.Value(call) && an.IsNil(r.Y) {
						hit := !reachExitAvoiding(s, func(x ssa.Instruction) bool { return an.CalleeIs(x, werr) })
						c.Check("F4", "bad-stage-defs-reported@(*Fork).doChunks", s.Instrs[0].Pos(), hit,
							"an unparseable _stage_defs must fail the split (WriteErrorString)")
						// and must not step chunks
						chunkStep := c.P.Func(pkgCore, "(*Chunk).step")
						reach := reachFromBlock(s, func(x ssa.Instruction) bool { return an.CalleeIs(x, chunkStep) })
						c.Check("F4", "bad-stage-defs-runs-nothing@(*Fork).doChunks", s.Instrs[0].Pos(), !reach,
							"an unparseable _stage_defs must not start chunks")
					}
				}
			}
		})
		c.Floor("F4", "ReadInto(StageDefsFile) in doChunks", n, 1)
	}
}

func fromMetadataRead(v ssa.Value) bool {
	ex, ok := v.(*ssa.Extract)
	if !ok {
		return false
	}
	call, ok := ex.Tuple.(*ssa.Call)
	if !ok || call.Call.StaticCallee() == nil {
		return false
	}
	return call.Call.StaticCallee().Name() == "read"
}

func ruleF5(c *an.Ctx) {
	p := c.P
	step := c.NeedFunc(pkgCore, "(*Node).step")
	postnodes := p.Field(pkgCore, "Node", "postnodes")
	nodeState := p.Field(pkgCore, "Node", "state")
	if step == nil || postnodes == nil || nodeState == nil {
		return
	}
	isNodeState := func(v ssa.Value) bool { return an.LoadsField(v, nodeState) }
	n := 0
	an.Instrs(step, func(in ssa.Instruction) {
		rg, ok := in.(*ssa.Range)
		if !ok || !an.LoadsField(rg.X, postnodes) {
			return
		}
		n++
		g, w := an.GuardedBy(in, func(r an.Rel) bool {
			return relEq(r, isNodeState, func(v ssa.Value) bool { return isState(p, v, "Complete") }) ||
				relEq(r, isNodeState, func(v ssa.Value) bool { return isState(p, v, "DisabledState") })
		})
		c.Check("F5", "postnodes-released-only-when-done@(*Node).step", in.Pos(), g,
			"post-nodes may be put on the frontier only when the node is Complete or Disabled (a failed node releases nobody); "+c.WitnessString(w))
	})
	c.Floor("F5", "ranges over Node.postnodes in Node.step", n, 1)
	// Failed keeps the node on the frontier
	nFail := 0
	for _, b := range step.Blocks {
		for _, s := range b.Succs {
			cnd, t, ok := an.EdgeCond(b, s)
			if !ok {
				continue
			}
			r := an.Normalize(cnd, t)
			if relEq(r, isNodeState, func(v ssa.Value) bool { return isState(p, v, "Failed") }) {
				nFail++
				add := c.P.Func(pkgCore, "(*Node).addFrontierNode")
				hit := !reachExitAvoiding(s, func(x ssa.Instruction) bool { return an.CalleeIs(x, add) })
				c.Check("F5", "failed-stays-on-frontier@(*Node).step", s.Instrs[0].Pos(), hit,
					"a failed node must stay on the frontier so the pipestance keeps reporting Failed")
			}
		}
	}
	c.Floor("F5", "state==Failed arm in Node.step", nFail, 1)

	gs := c.NeedFunc(pkgCore, "(*Pipestance).GetState")
	if gs != nil {
		var rets []*ssa.Return
		an.Instrs(gs, func(in ssa.Instruction) {
			if r, ok := in.(*ssa.Return); ok && isState(p, an.RetVal(r, 0), "Complete") {
				rets = append(rets, r)
			}
		})
		c.Floor("F5", "return Complete in Pipestance.GetState", len(rets), 1)
		for _, r := range rets {
			// S: element loads inside loops; try every load of a *Node element from a slice
			okAny, why := false, "no element loop found"
			an.Instrs(gs, func(in ssa.Instruction) {
				u, ok := in.(*ssa.UnOp)
				if !ok || u.Op != token.MUL {
					return
				}
				if _, isIdx := u.X.(*ssa.IndexAddr); !isIdx {
					return
				}
				ok2, w := allFlag(gs, r, in, func(rel an.Rel) bool {
					return relEq(rel, isNodeState, func(v ssa.Value) bool { return isState(p, v, "Complete") }) ||
						relEq(rel, isNodeState, func(v ssa.Value) bool { return isState(p, v, "DisabledState") })
				})
				if ok2 {
					okAny, why = true, w
				} else if !okAny {
					why = w
				}
			})
			c.Check("F5", "pipestance-complete-only-if-every-node-done@(*Pipestance).GetState", r.Pos(), okAny,
				"the pipestance may report Complete only if every node's state compared Complete/Disabled: "+why)
		}
	}
}

func ruleF6(c *an.Ctx) {
	p := c.P
	fns := p.FuncsOf(pkgMrp)
	if len(fns) == 0 {
		c.Undecided("anchor", "package cmd/mrp", token.NoPos, "package not loaded")
		return
	}
	cleanupCompleted := c.NeedFunc(pkgMrp, "cleanupCompleted")
	cleanupFailed := c.NeedFunc(pkgMrp, "cleanupFailed")
	loopBody := c.NeedFunc(pkgMrp, "loopBody")
	if cleanupCompleted == nil || cleanupFailed == nil || loopBody == nil {
		return
	}
	// functions from which a success exit is allowed: cleanupCompleted and functions only it starts
	allowed := map[*ssa.Function]bool{cleanupCompleted: true}
	changed := true
	for changed {
		changed = false
		for _, fn := range fns {
			if allowed[fn] {
				continue
			}
			callers := p.Callers(fn)
			if len(callers) == 0 {
				continue
			}
			all := true
			for cl := range callers {
				if !allowed[an.Outermost(cl)] {
					all = false
				}
			}
			if all {
				allowed[fn] = true
				changed = true
			}
		}
	}
	n := 0
	for _, fn := range fns {
		an.Instrs(fn, func(in ssa.Instruction) {
			if call, ok := an.IsPkgFuncCall(in, utilPath, "Suicide"); ok {
				n++
				arg := call.Common().Args[0]
				key := "exit(Suicide(" + an.Path(arg) + "))@" + an.FnName(fn)
				if cv, isC := arg.(*ssa.Const); isC {
					if cv.Value.String() == "true" {
						c.Check("F6", key, in.Pos(), allowed[an.Outermost(fn)], "a success exit status is allowed only on the completed-cleanup path")
					} else {
						c.Pass("F6", key, in.Pos(), "failure exit status")
					}
					return
				}
				// non-constant: must be state == Complete
				b, isBin := arg.(*ssa.BinOp)
				ok2 := isBin && b.Op == token.EQL && (isState(p, b.Y, "Complete") || isState(p, b.X, "Complete"))
				c.Check("F6", key, in.Pos(), ok2, "a computed exit status must be exactly state == Complete")
				return
			}
			if call, ok := an.IsPkgFuncCall(in, "os", "Exit"); ok {
				if an.IsIntConst(call.Common().Args[0], 0) {
					c.Check("F6", "exit(os.Exit(0))@"+an.FnName(fn), in.Pos(), allowed[an.Outermost(fn)], "a success exit status is allowed only on the completed-cleanup path")
				}
			}
		})
	}
	c.Floor("F6", "util.Suicide calls in cmd/mrp", n, 1)
	// cleanupCompleted is reached only under state == Complete || Disabled
	got := effectiveCallers(p, cleanupCompleted, []string{"loopBody"})
	c.Check("F6", "callers(cleanupCompleted)", cleanupCompleted.Pos(), sameSet(got, []string{"loopBody"}), fmt.Sprintf("callers: %v", got))
	for _, call := range callsTo(loopBody, cleanupCompleted) {
		g, w := an.GuardedBy(call.(ssa.Instruction), func(r an.Rel) bool {
			return relEq(r, anyVal, func(v ssa.Value) bool { return isState(p, v, "Complete") }) ||
				relEq(r, anyVal, func(v ssa.Value) bool { return isState(p, v, "DisabledState") })
		})
		c.Check("F6", "completed-cleanup-only-when-complete@loopBody", call.Pos(), g, "cleanupCompleted must be dominated by state == Complete || state == DisabledState; "+c.WitnessString(w))
	}
	// the tested state is Pipestance.GetState's result
	getState := p.Func(pkgCore, "(*Pipestance).GetState")
	if getState != nil {
		ok := len(callsTo(loopBody, getState)) >= 1
		c.Check("F6", "loopBody-consults-GetState", loopBody.Pos(), ok, "the run loop decides completion from Pipestance.GetState()")
	}
	// failed: the Failed arm reaches cleanupFailed or attemptRetry
	for _, b := range loopBody.Blocks {
		for _, s := range b.Succs {
			cnd, t, ok := an.EdgeCond(b, s)
			if !ok {
				continue
			}
			r := an.Normalize(cnd, t)
			if relEq(r, anyVal, func(v ssa.Value) bool { return isState(p, v, "Failed") }) {
				retry := p.Func(pkgMrp, "attemptRetry")
				stepNodes := p.Func(pkgCore, "(*Pipestance).StepNodes")
				hit := !reachExitAvoiding(s, func(x ssa.Instruction) bool { return an.CalleeIs(x, cleanupFailed, retry) })
				c.Check("F6", "failed-reaches-cleanupFailed@loopBody", s.Instrs[0].Pos(), hit, "a failed pipestance must go to cleanupFailed (or a retry)")
				reach := reachFromBlock(s, func(x ssa.Instruction) bool { return an.CalleeIs(x, stepNodes) })
				c.Check("F6", "failed-does-not-step@loopBody", s.Instrs[0].Pos(), !reach, "a failed pipestance must not keep stepping nodes")
			}
		}
	}
}

func isErrorT(t types.Type) bool {
	n, ok := t.(*types.Named)
	return ok && n.Obj().Pkg() == nil && n.Obj().Name() == "error"
}
