package props

import (
	"fmt"
	"regexp/syntax"
	"strings"
)

// unsafeRunesOfWordPattern parses a regular expression constant of the form ^[class]+$ / ^[class]*$
// and returns a printable list of the characters its class accepts for which safe() is false
// ("" if none), or a reason why the pattern does not have that form.
func unsafeRunesOfWordPattern(pat string, safe func(rune) bool) (bad string, err string) {
	re, e := syntax.Parse(pat, syntax.Perl)
	if e != nil {
		return "", "which does not parse: " + e.Error()
	}
	re = re.Simplify()
	if re.Op != syntax.OpConcat || len(re.Sub) != 3 ||
		(re.Sub[0].Op != syntax.OpBeginText && re.Sub[0].Op != syntax.OpBeginLine) ||
		(re.Sub[2].Op != syntax.OpEndText) {
		return "", "which is not of the anchored form ^[class]+$ (an unanchored or multi-line match accepts any text around a safe word)"
	}
	if re.Sub[0].Op == syntax.OpBeginLine {
		return "", "which is anchored to a line, not to the text"
	}
	if re.Sub[2].Flags&syntax.WasDollar != 0 {
		// `$` without (?s)... in Go, $ without the m flag is end of text: fine
	}
	body := re.Sub[1]
	if body.Op != syntax.OpPlus && body.Op != syntax.OpStar {
		return "", "which is not a repetition of one character class"
	}
	cls := body.Sub[0]
	var ranges []rune
	switch cls.Op {
	case syntax.OpCharClass:
		ranges = cls.Rune
	case syntax.OpLiteral:
		for _, r := range cls.Rune {
			ranges = append(ranges, r, r)
		}
	default:
		return "", "whose repeated element is not a character class"
	}
	var bads []string
	for i := 0; i+1 < len(ranges); i += 2 {
		lo, hi := ranges[i], ranges[i+1]
		if hi-lo > 0x400 {
			return "", fmt.Sprintf("whose class contains the wide range %U-%U", lo, hi)
		}
		for r := lo; r <= hi; r++ {
			if !safe(r) {
				bads = append(bads, fmt.Sprintf("%q", r))
			}
		}
	}
	if len(bads) > 12 {
		bads = append(bads[:12], "...")
	}
	return strings.Join(bads, " "), ""
}
