package props

import (
	"go/token"
	"go/types"

	"mrocheck/an"

	"golang.org/x/tools/go/ssa"
)

// S7: struct-typed parameters are compared by definition, not by name.  The parameter relations
// (InParams.Equals, OutParams.Equals) compare GetTname(), which for a struct is its name only.
// A struct keeps its name when one of its members changes type (`int a` -> `float a`), so unless
// the equivalence relation also looks INTO the struct types of both programs the edit is reported
// equivalent and a re-attach is accepted although the type of a parameter changed.
// Necessary condition: some function reachable from Ast.EquivalentCall reads the member list
// (StructType.Members or StructType.Table) of a struct type.
func ruleS7(c *an.Ctx) {
	p := c.P
	root := c.NeedFunc(pkgSyntax, "(*Ast).EquivalentCall")
	members := p.Field(pkgSyntax, "StructType", "Members")
	table := p.Field(pkgSyntax, "StructType", "Table")
	if root == nil || members == nil {
		return
	}
	seen := map[*ssa.Function]bool{}
	var order []*ssa.Function
	var walk func(f *ssa.Function, d int)
	walk = func(f *ssa.Function, d int) {
		if f == nil || seen[f] || f.Blocks == nil || fnPkg(f) != root.Pkg || d > 8 {
			return
		}
		seen[f] = true
		order = append(order, f)
		for _, g := range an.WithAnon(f) {
			an.Instrs(g, func(in ssa.Instruction) {
				if cl := an.AsCallAny(in); cl != nil {
					if callee := cl.Common().StaticCallee(); callee != nil {
						walk(callee, d+1)
					} else if cl.Common().IsInvoke() {
						// interface calls (Callable.EquivalentTo, Exp.equal): every implementation in the package
						for _, impl := range c.P.FuncsOf(pkgSyntax) {
							if impl.Signature.Recv() != nil && impl.Name() == cl.Common().Method.Name() {
								walk(impl, d+1)
							}
						}
					}
				}
			})
		}
	}
	walk(root, 0)
	where := ""
	for _, f := range order {
		for _, g := range an.WithAnon(f) {
			if len(an.FieldAccesses(g, members)) > 0 || (table != nil && len(an.FieldAccesses(g, table)) > 0) {
				if where == "" {
					where = an.FnName(f)
				}
			}
		}
	}
	detail := "struct definitions are examined in " + where
	if where == "" {
		detail = "nothing reachable from Ast.EquivalentCall reads the members of a struct type: struct-typed parameters are compared by type name only, so a change of a member's type (struct CONF(int a) -> (float a)) is reported equivalent and a re-attach with the edited program is accepted"
	}
	c.Check("S7", "struct-definitions-compared@(*Ast).EquivalentCall", root.Pos(), where != "", detail)
	c.Note("S7: %d functions reachable from Ast.EquivalentCall", len(order))
}

// fnPkg: the package of a function; for an instantiation of a generic function, that of its origin.
func fnPkg(f *ssa.Function) *ssa.Package {
	if f.Pkg != nil {
		return f.Pkg
	}
	if o := f.Origin(); o != nil {
		return o.Pkg
	}
	return nil
}

// S8: a pipestance whose lock could not be taken is not handed back.  Callers release whatever
// pipestance an attach attempt returns when a later step fails (`pipestance.Unlock()` on the error
// paths of reattachToPipestance); Unlock removes the lock file unconditionally.  If the function
// that tries to take the lock returned the pipestance together with the "already locked" error,
// such a release would delete the lock of the live mrp that owns the pipestance, and the next
// attach attempt would succeed while the owner is still running.
// Rule: in every function of package core that calls (*Pipestance).Lock and has a *Pipestance
// result, each return on the error edge of Lock yields a nil pipestance.
func ruleS8(c *an.Ctx) {
	p := c.P
	lock := p.Func(pkgCore, "(*Pipestance).Lock")
	if lock == nil {
		c.Info("S8", "anchor((*Pipestance).Lock)", 0, "not found: not decided")
		return
	}
	isPsPtr := func(t types.Type) bool {
		pt, ok := t.(*types.Pointer)
		if !ok {
			return false
		}
		n, ok := pt.Elem().(*types.Named)
		return ok && n.Obj().Name() == "Pipestance"
	}
	n := 0
	for _, fn := range coreFns(c) {
		res := fn.Signature.Results()
		idx := -1
		for i := 0; i < res.Len(); i++ {
			if isPsPtr(res.At(i).Type()) {
				idx = i
			}
		}
		if idx < 0 {
			continue
		}
		for _, cs := range callsTo(fn, lock) {
			call, ok := cs.(*ssa.Call)
			if !ok {
				continue
			}
			n++
			// returns reachable only through the edge `Lock() != nil`
			okAll, where := true, ""
			an.Instrs(fn, func(in ssa.Instruction) {
				ret, isRet := in.(*ssa.Return)
				if !isRet || idx >= len(ret.Results) {
					return
				}
				if !an.Reachable(fn, nil, func(x ssa.Instruction) bool { return x == in }) {
					return // the synthetic return of the recover block
				}
				failed, _ := an.GuardedBy(ret, func(r an.Rel) bool {
					return r.Op == token.NEQ && r.X == ssa.Value(call) && an.IsNil(r.Y)
				})
				if !failed {
					return
				}
				if !an.IsNil(an.Strip(an.RetVal(ret, idx))) {
					okAll, where = false, c.P.Pos(ret.Pos())
				}
			})
			c.Check("S8", "unlocked-pipestance-not-returned@"+an.FnName(fn), call.Pos(), okAll,
				"on the path where Pipestance.Lock() failed (somebody else holds the lock) the function still returns the pipestance ("+where+"): callers unlock the pipestance they were given when a later step fails, which removes the lock file of the live owner")
		}
	}
	c.Floor("S8", "lock attempts in functions that return a pipestance", n, 1)
}
