package props

import (
	"mrocheck/an"

	"golang.org/x/tools/go/ssa"
)

// S7: struct-typed parameters are compared by definition, not by name.  The parameter relations
// (InParams.Equals, OutParams.Equals) compare GetTname(), which for a struct is its name only.
// A struct keeps its name when one of its members changes type (`int a` -> `float a`), so unless
// the equivalence relation also looks INTO the struct types of both programs the edit is reported
// equivalent and a re-attach is accepted although the type of a parameter changed.
// Necessary condition: some function reachable from Ast.EquivalentCall reads the member list
// (StructType.Members or StructType.Table) of a struct type.
func ruleS7(c *an.Ctx) {
	p := c.P
	root := c.NeedFunc(pkgSyntax, "(*Ast).EquivalentCall")
	members := p.Field(pkgSyntax, "StructType", "Members")
	table := p.Field(pkgSyntax, "StructType", "Table")
	if root == nil || members == nil {
		return
	}
	seen := map[*ssa.Function]bool{}
	var order []*ssa.Function
	var walk func(f *ssa.Function, d int)
	walk = func(f *ssa.Function, d int) {
		if f == nil || seen[f] || f.Blocks == nil || fnPkg(f) != root.Pkg || d > 8 {
			return
		}
		seen[f] = true
		order = append(order, f)
		for _, g := range an.WithAnon(f) {
			an.Instrs(g, func(in ssa.Instruction) {
				if cl := an.AsCallAny(in); cl != nil {
					if callee := cl.Common().StaticCallee(); callee != nil {
						walk(callee, d+1)
					} else if cl.Common().IsInvoke() {
						// interface calls (Callable.EquivalentTo, Exp.equal): every implementation in the package
						for _, impl := range c.P.FuncsOf(pkgSyntax) {
							if impl.Signature.Recv() != nil && impl.Name() == cl.Common().Method.Name() {
								walk(impl, d+1)
							}
						}
					}
				}
			})
		}
	}
	walk(root, 0)
	where := ""
	for _, f := range order {
		for _, g := range an.WithAnon(f) {
			if len(an.FieldAccesses(g, members)) > 0 || (table != nil && len(an.FieldAccesses(g, table)) > 0) {
				if where == "" {
					where = an.FnName(f)
				}
			}
		}
	}
	detail := "struct definitions are examined in " + where
	if where == "" {
		detail = "nothing reachable from Ast.EquivalentCall reads the members of a struct type: struct-typed parameters are compared by type name only, so a change of a member's type (struct CONF(int a) -> (float a)) is reported equivalent and a re-attach with the edited program is accepted"
	}
	c.Check("S7", "struct-definitions-compared@(*Ast).EquivalentCall", root.Pos(), where != "", detail)
	c.Note("S7: %d functions reachable from Ast.EquivalentCall", len(order))
}

// fnPkg: the package of a function; for an instantiation of a generic function, that of its origin.
func fnPkg(f *ssa.Function) *ssa.Package {
	if f.Pkg != nil {
		return f.Pkg
	}
	if o := f.Origin(); o != nil {
		return o.Pkg
	}
	return nil
}
