package props

import (
	"fmt"
	"go/types"
	"sort"
	"strings"

	"mrocheck/an"

	"golang.org/x/tools/go/ssa"
)

// D3: sibling agreement of key orders.  Keys of pointer type collected from a map and then sorted with
// a comparator closure are ordered by some fields of the pointee.  If the comparator ties for two
// distinct keys, their relative order is whatever the map iteration produced.  Whether a field is
// unique among the keys is a run-time fact; but where two sort sites for the same key type exist and
// one orders by a strict subset of the fields the other uses, the weaker one contradicts the belief
// encoded in the stronger one (that the extra fields are needed to separate keys).  The weaker site is
// reported.
type sortSite struct {
	typ    string
	fields map[string]bool
	fn     *ssa.Function
	call   ssa.Instruction
}

func ruleD3(c *an.Ctx, fns []*ssa.Function, cfg *an.OrderConfig) {
	var sites []sortSite
	for _, fn := range fns {
		loops := an.FindMapLoops(fn)
		if len(loops) == 0 {
			continue
		}
		keyTypes := map[string]bool{}
		for _, l := range loops {
			mt, ok := l.Range.X.Type().Underlying().(*types.Map)
			if !ok {
				continue
			}
			if pt, ok := mt.Key().Underlying().(*types.Pointer); ok {
				if n, ok := pt.Elem().(*types.Named); ok {
					if _, isStruct := n.Underlying().(*types.Struct); isStruct {
						keyTypes[n.Obj().Name()] = true
					}
				}
			}
		}
		if len(keyTypes) == 0 {
			continue
		}
		an.Instrs(fn, func(in ssa.Instruction) {
			cl, ok := in.(ssa.CallInstruction)
			if !ok {
				return
			}
			f := cl.Common().StaticCallee()
			if f != nil && f.Pkg != nil && f.Pkg.Pkg.Path() == "sort" && (f.Name() == "Sort" || f.Name() == "Stable") && len(cl.Common().Args) == 1 {
				// sort.Sort(x): the comparator is the Less method of x's type
				mi, ok := cl.Common().Args[0].(*ssa.MakeInterface)
				if !ok {
					return
				}
				nt, ok := mi.X.Type().(*types.Named)
				if !ok {
					return
				}
				st, ok := nt.Underlying().(*types.Slice)
				if !ok {
					return
				}
				pt, ok := st.Elem().Underlying().(*types.Pointer)
				if !ok {
					return
				}
				n, ok := pt.Elem().(*types.Named)
				if !ok || !keyTypes[n.Obj().Name()] {
					return
				}
				sel := types.NewMethodSet(nt).Lookup(nt.Obj().Pkg(), "Less")
				if sel == nil {
					return
				}
				less := c.P.SSA.MethodValue(sel)
				if less == nil || less.Blocks == nil {
					return
				}
				sites = append(sites, sortSite{typ: n.Obj().Name(), fields: comparatorFields(less), fn: fn, call: in})
				return
			}
			if f == nil || f.Pkg == nil || f.Pkg.Pkg.Path() != "sort" || (f.Name() != "Slice" && f.Name() != "SliceStable") || len(cl.Common().Args) != 2 {
				return
			}
			st, ok := an.Strip(cl.Common().Args[0]).Type().Underlying().(*types.Slice)
			if !ok {
				return
			}
			pt, ok := st.Elem().Underlying().(*types.Pointer)
			if !ok {
				return
			}
			n, ok := pt.Elem().(*types.Named)
			if !ok || !keyTypes[n.Obj().Name()] {
				return
			}
			mc, ok := cl.Common().Args[1].(*ssa.MakeClosure)
			if !ok {
				return
			}
			less, _ := mc.Fn.(*ssa.Function)
			if less == nil {
				return
			}
			sites = append(sites, sortSite{typ: n.Obj().Name(), fields: comparatorFields(less), fn: fn, call: in})
		})
	}
	c.Note("D3: sort sites over pointer keys collected from maps: %d", len(sites))
	c.Floor("D3", "comparator sorts of pointer keys collected from a map", len(sites), 1)
	d4seen := map[string]bool{}
	for i, s := range sites {
		var weakerThan *sortSite
		for j := range sites {
			o := &sites[j]
			if i == j || o.typ != s.typ || len(o.fields) <= len(s.fields) {
				continue
			}
			sub := true
			for f := range s.fields {
				if !o.fields[f] {
					sub = false
				}
			}
			if sub {
				weakerThan = o
			}
		}
		// D4: a source location is (file, line, column).  A comparator that falls back on the line
		// number of two keys taken from a map believes the line separates them; two declarations
		// in different files, or on one line, share it - the tie is then broken by map order.
		for f := range s.fields {
			if !strings.HasSuffix(f, "Loc.Line") {
				continue
			}
			base := strings.TrimSuffix(f, "Line")
			hasFile, hasCol := false, false
			for g := range s.fields {
				if strings.HasPrefix(g, base+"File") {
					hasFile = true
				}
				if g == base+"Col" {
					hasCol = true
				}
			}
			d4key := "location-order-complete(" + s.typ + "." + f + ")@" + originName(s.fn)
			if d4seen[d4key] {
				continue
			}
			d4seen[d4key] = true
			c.Check("D4", d4key, s.call.Pos(), hasFile && hasCol,
				fmt.Sprintf("keys of type *%s taken from a map are ordered by the line number of their declaration without its file and column (file compared: %v, column compared: %v): two declarations on the same line number of different files, or on one line, tie and come out in map iteration order", s.typ, hasFile, hasCol))
		}
		key := "key-order(" + s.typ + " by " + fieldList(s.fields) + ")@" + an.FnName(s.fn)
		if weakerThan != nil {
			c.Fail("D3", key, s.call.Pos(), fmt.Sprintf("keys of type *%s taken from a map are ordered by {%s} only, while %s orders the same key type by {%s}: where the first fields tie, the order of the keys is the map's iteration order and reaches the output", s.typ, fieldList(s.fields), an.FnName(weakerThan.fn), fieldList(weakerThan.fields)))
		} else {
			c.Pass("D3", key, s.call.Pos(), "no sibling sort of the same key type uses a finer order")
		}
	}
}

func fieldList(m map[string]bool) string {
	var out []string
	for k := range m {
		out = append(out, k)
	}
	sort.Strings(out)
	return strings.Join(out, ", ")
}

// comparatorFields: the field paths of the slice elements that the comparator reads.
func comparatorFields(less *ssa.Function) map[string]bool {
	out := map[string]bool{}
	var pathOf func(v ssa.Value, d int) (string, bool)
	pathOf = func(v ssa.Value, d int) (string, bool) {
		if d > 6 {
			return "", false
		}
		switch x := v.(type) {
		case *ssa.FieldAddr:
			_, f := an.FieldOfAddr(x)
			if f == nil {
				return "", false
			}
			base, ok := pathOf(x.X, d+1)
			if !ok {
				return "", false
			}
			if base == "" {
				return f.Name(), true
			}
			return base + "." + f.Name(), true
		case *ssa.UnOp:
			// load of slice[i] : the element pointer
			if ia, ok := x.X.(*ssa.IndexAddr); ok {
				_ = ia
				return "", true
			}
			return pathOf(x.X, d+1)
		case *ssa.Alloc:
			// a local copy of a component (`li := calls[i].Node.Loc`): the path of what was copied
			var src ssa.Value
			n := 0
			for _, r := range an.Referrers(x) {
				if st, ok := r.(*ssa.Store); ok && st.Addr == ssa.Value(x) {
					src = st.Val
					n++
				}
			}
			if n == 1 {
				return pathOf(src, d+1)
			}
		}
		return "", false
	}
	// one-line accessors (`func (s *SplitExp) Line() int { return s.Node.Loc.Line }`) called on an element
	an.Instrs(less, func(in ssa.Instruction) {
		cl, ok := in.(*ssa.Call)
		if !ok {
			return
		}
		h := cl.Call.StaticCallee()
		if h == nil || h.Blocks == nil || len(h.Blocks) != 1 || h.Signature.Recv() == nil || len(cl.Call.Args) != 1 {
			return
		}
		base, ok := pathOf(cl.Call.Args[0], 0)
		if !ok {
			return
		}
		var inner func(v ssa.Value, d int) (string, bool)
		inner = func(v ssa.Value, d int) (string, bool) {
			if d > 6 {
				return "", false
			}
			switch x := v.(type) {
			case *ssa.Parameter:
				return "", true
			case *ssa.FieldAddr:
				_, f := an.FieldOfAddr(x)
				if f == nil {
					return "", false
				}
				b, ok := inner(x.X, d+1)
				if !ok {
					return "", false
				}
				if b == "" {
					return f.Name(), true
				}
				return b + "." + f.Name(), true
			case *ssa.UnOp:
				return inner(x.X, d+1)
			}
			return "", false
		}
		an.Instrs(h, func(hin ssa.Instruction) {
			ret, ok := hin.(*ssa.Return)
			if !ok || len(ret.Results) != 1 {
				return
			}
			if pth, ok := inner(ret.Results[0], 0); ok && pth != "" {
				if base != "" {
					pth = base + "." + pth
				}
				out[pth] = true
			}
		})
	})
	an.Instrs(less, func(in ssa.Instruction) {
		fa, ok := in.(*ssa.FieldAddr)
		if !ok {
			return
		}
		// maximal paths only
		for _, r := range an.Referrers(fa) {
			if _, isFA := r.(*ssa.FieldAddr); isFA {
				return
			}
		}
		if p, ok := pathOf(fa, 0); ok && p != "" {
			out[p] = true
		}
	})
	return out
}

// originName: the name of a function without the type arguments of a generic instantiation.
func originName(fn *ssa.Function) string {
	if o := fn.Origin(); o != nil {
		return an.FnName(o)
	}
	return an.FnName(fn)
}

// D5: a sort.Slice comparator compares elements of the slice being sorted.  sort.Slice(x, less)
// permutes x and calls less(i, j) with indices INTO x as it is being permuted.  A comparator that
// uses i and j to index another slice (`sort.Slice(parts, func(a, b int) bool { return keys[a] <
// keys[b] })`) compares positions that do not move with the elements: the result depends on the
// initial order of x - the iteration order of the map x was collected from - and differs from run
// to run.  Rule: in every sort.Slice / sort.SliceStable call of the runtime and syntax packages
// whose comparator indexes some slice with its parameters, one of the indexed slices is the slice
// being sorted.
func ruleD5(c *an.Ctx) {
	p := c.P
	n := 0
	for _, pk := range []string{pkgCore, pkgSyntax} {
		for _, fn := range p.FuncsOf(pk) {
			an.Instrs(fn, func(in ssa.Instruction) {
				cl, ok := in.(ssa.CallInstruction)
				if !ok {
					return
				}
				f := cl.Common().StaticCallee()
				if f == nil || f.Pkg == nil || f.Pkg.Pkg.Path() != "sort" || (f.Name() != "Slice" && f.Name() != "SliceStable") || len(cl.Common().Args) != 2 {
					return
				}
				sorted := an.Strip(cl.Common().Args[0])
				mc, ok := cl.Common().Args[1].(*ssa.MakeClosure)
				if !ok {
					return
				}
				less, _ := mc.Fn.(*ssa.Function)
				if less == nil || len(less.Params) != 2 {
					return
				}
				// what a free variable of the closure is bound to
				binding := map[*ssa.FreeVar]ssa.Value{}
				for i, fv := range less.FreeVars {
					if i < len(mc.Bindings) {
						binding[fv] = mc.Bindings[i]
					}
				}
				same := func(base ssa.Value) bool {
					// inside the closure: a load of a free variable (cell of the captured local) or the free variable itself
					v := base
					if u, ok := v.(*ssa.UnOp); ok {
						v = u.X
					}
					fv, ok := v.(*ssa.FreeVar)
					if !ok {
						return false
					}
					b := binding[fv]
					if b == nil {
						return false
					}
					// the sorted argument is a load of the same cell, or the same value
					if b == sorted {
						return true
					}
					if su, ok := sorted.(*ssa.UnOp); ok && su.X == b {
						return true
					}
					return an.Path(b) == an.Path(sorted)
				}
				indexed, own := 0, false
				an.Instrs(less, func(x ssa.Instruction) {
					var base, idx ssa.Value
					switch y := x.(type) {
					case *ssa.IndexAddr:
						base, idx = y.X, y.Index
					case *ssa.Index:
						base, idx = y.X, y.Index
					default:
						return
					}
					if idx != ssa.Value(less.Params[0]) && idx != ssa.Value(less.Params[1]) {
						return
					}
					indexed++
					// the same local through a captured cell, or the same field path through a captured receiver
					norm := func(v ssa.Value) string { return strings.TrimPrefix(an.StablePath(v), "local:") }
					if same(base) || (norm(base) == norm(sorted) && !strings.Contains(norm(base), "_")) {
						own = true // (a captured local is "local:x" outside and "x" inside the closure)
					}
				})
				if indexed == 0 {
					return
				}
				n++
				c.Check("D5", "comparator-indexes-the-sorted-slice("+an.StablePath(sorted)+")@"+originName(fn), in.Pos(), own,
					"the comparator passed to sort.Slice indexes only other slices with its parameters, never the slice being sorted: it compares positions that do not move with the elements, so the outcome depends on the initial order of the slice (map iteration order when it was collected from a map)")
			})
		}
	}
	c.Floor("D5", "sort.Slice comparators that index by their parameters", n, 3)
}
