package props

import (
	"go/constant"
	"go/token"
	"go/types"
	"strings"

	"mrocheck/an"

	"golang.org/x/tools/go/ssa"
)

// ---------------------------------------------------------------------------
// Byte-wise predicates.
//
//	func isSafe(s string) bool {
//		for i := 0; i < len(s); i++ {
//			if c := s[i]; c <= ' ' || c >= 0x7f || strings.IndexByte(unsafe, c) >= 0 {
//				return false
//			}
//		}
//		return true
//	}
//
// The value of such a predicate says which bytes cannot occur in s.  The element c is touched
// only through comparisons with constants and searches in constant strings, so the loop body is
// a function of one byte: bytePredicate evaluates it for each value 0..255 by folding constants
// along the control flow graph (no program is run: the walk stops at the first condition that
// is not a function of c alone, and then nothing is concluded).
//
// Result: g(s) == w  ⇒  no byte of s lies in the returned set, provided
//   - the loop visits every position (index phi 0, +1, compared with len(s); or range over s),
//   - for every byte value the body either continues the loop or returns !w (a constant),
//   - a return that may yield w is reached only through the loop's exit at the header.
// ---------------------------------------------------------------------------

type byteOutcome int

const (
	boUnknown byteOutcome = iota
	boContinue
	boRetTrue
	boRetFalse
)

// bytePredicate: ok is false when g is not of the interpreted shape.
func bytePredicate(g *ssa.Function, w bool) (ex map[rune]bool, ok bool) {
	if g == nil || g.Blocks == nil || g.Signature.Results().Len() != 1 || !isBoolType(g.Signature.Results().At(0).Type()) {
		return nil, false
	}
	var sp *ssa.Parameter
	for _, p := range g.Params {
		if b, isB := p.Type().Underlying().(*types.Basic); isB && b.Info()&types.IsString != 0 {
			if sp != nil {
				return nil, false
			}
			sp = p
		}
	}
	if sp == nil {
		return nil, false
	}
	// the element
	var elem ssa.Value
	var elemIn ssa.Instruction
	var hdr *ssa.BasicBlock
	n := 0
	an.Instrs(g, func(in ssa.Instruction) {
		switch x := in.(type) {
		case *ssa.Index:
			if an.Strip(x.X) == ssa.Value(sp) {
				n++
				elem, elemIn = x, x
				// index: phi(0, phi+1) in the header, header condition phi < len(s)
				ph, isPhi := x.Index.(*ssa.Phi)
				if !isPhi || len(ph.Edges) != 2 {
					return
				}
				zero, step := false, false
				for _, e := range ph.Edges {
					if an.IsIntConst(e, 0) {
						zero = true
					}
					if b, isB := e.(*ssa.BinOp); isB && b.Op == token.ADD && b.X == ssa.Value(ph) && an.IsIntConst(b.Y, 1) {
						step = true
					}
				}
				if !zero || !step {
					return
				}
				hb := ph.Block()
				iff, isIf := hb.Instrs[len(hb.Instrs)-1].(*ssa.If)
				if !isIf {
					return
				}
				cmp, isCmp := iff.Cond.(*ssa.BinOp)
				if !isCmp || cmp.Op != token.LSS || cmp.X != ssa.Value(ph) {
					return
				}
				if l, isLen := cmp.Y.(*ssa.Call); isLen {
					if args, isB := an.IsBuiltinCall(l, "len"); isB && len(args) == 1 && an.Strip(args[0]) == ssa.Value(sp) {
						hdr = hb
					}
				}
			}
		case *ssa.Extract:
			// for _, c := range s
			if nx, isNext := x.Tuple.(*ssa.Next); isNext && nx.IsString && x.Index == 2 {
				if rg, isR := nx.Iter.(*ssa.Range); isR && an.Strip(rg.X) == ssa.Value(sp) {
					n++
					elem, elemIn = x, x
					hdr = nx.Block()
				}
			}
		}
	})
	if n != 1 || elem == nil || hdr == nil {
		return nil, false
	}
	loop := naturalLoop(hdr)
	if len(loop) == 0 || !loop[elemIn.Block()] {
		return nil, false
	}
	// a return that may yield w is reached only through the header's exit
	retMay := func(in ssa.Instruction) bool {
		r, isRet := in.(*ssa.Return)
		if !isRet {
			return false
		}
		v := an.RetVal(r, 0)
		if cv, isC := an.ConstVal(v); isC && cv.Kind() == constant.Bool {
			return constant.BoolVal(cv) == w
		}
		return true
	}
	wq := an.Query{Fn: g, Target: retMay, BarrierEdge: func(from, to *ssa.BasicBlock) bool {
		return from == hdr && !loop[to]
	}}.Find()
	if wq != nil {
		return nil, false
	}
	ex = map[rune]bool{}
	for r := rune(0); r < 256; r++ {
		switch byteBodyOutcome(elemIn, elem, hdr, r) {
		case boContinue:
		case boRetTrue:
			if w {
				return nil, false
			}
			ex[r] = true
		case boRetFalse:
			if !w {
				return nil, false
			}
			ex[r] = true
		default:
			return nil, false
		}
	}
	return ex, true
}

// byteBodyOutcome folds the loop body for one element value.
func byteBodyOutcome(start ssa.Instruction, elem ssa.Value, hdr *ssa.BasicBlock, r rune) byteOutcome {
	env := map[ssa.Value]constant.Value{elem: constant.MakeInt64(int64(r))}
	val := func(v ssa.Value) (constant.Value, bool) {
		if cv, ok := env[v]; ok {
			return cv, true
		}
		if c, ok := v.(*ssa.Const); ok && c.Value != nil {
			return c.Value, true
		}
		return nil, false
	}
	b := start.Block()
	idx := 0
	for i, in := range b.Instrs {
		if in == start {
			idx = i + 1
		}
	}
	var prev *ssa.BasicBlock
	for steps := 0; steps < 400; steps++ {
		for ; idx < len(b.Instrs); idx++ {
			switch x := b.Instrs[idx].(type) {
			case *ssa.Phi:
				for k, p := range b.Preds {
					if p == prev {
						if cv, ok := val(x.Edges[k]); ok {
							env[x] = cv
						}
					}
				}
			case *ssa.BinOp:
				xv, okx := val(x.X)
				yv, oky := val(x.Y)
				if !okx || !oky {
					continue
				}
				switch x.Op {
				case token.EQL, token.NEQ, token.LSS, token.LEQ, token.GTR, token.GEQ:
					if (xv.Kind() == constant.Int && yv.Kind() == constant.Int) || (xv.Kind() == constant.Bool && yv.Kind() == constant.Bool && (x.Op == token.EQL || x.Op == token.NEQ)) {
						env[x] = constant.MakeBool(constant.Compare(xv, x.Op, yv))
					}
				case token.ADD, token.SUB, token.AND, token.OR, token.XOR:
					if xv.Kind() == constant.Int && yv.Kind() == constant.Int {
						env[x] = constant.BinaryOp(xv, x.Op, yv)
					}
				}
			case *ssa.UnOp:
				if xv, ok := val(x.X); ok && x.Op == token.NOT && xv.Kind() == constant.Bool {
					env[x] = constant.MakeBool(!constant.BoolVal(xv))
				}
			case *ssa.Convert:
				// integer to integer conversions of a value in 0..255 keep it
				if xv, ok := val(x.X); ok && xv.Kind() == constant.Int {
					if bt, isB := x.Type().Underlying().(*types.Basic); isB && bt.Info()&types.IsInteger != 0 {
						env[x] = xv
					}
				}
			case *ssa.ChangeType:
				if xv, ok := val(x.X); ok {
					env[x] = xv
				}
			case *ssa.Call:
				f := x.Call.StaticCallee()
				if f == nil || f.Pkg == nil || (f.Pkg.Pkg.Path() != "strings" && f.Pkg.Pkg.Path() != "bytes") || len(x.Call.Args) != 2 {
					continue
				}
				hay, okh := an.ConstVal(x.Call.Args[0])
				nv, okn := val(x.Call.Args[1])
				if !okh || !okn || hay.Kind() != constant.String || nv.Kind() != constant.Int {
					continue
				}
				c64, _ := constant.Int64Val(nv)
				h := constant.StringVal(hay)
				var pos int
				switch f.Name() {
				case "IndexByte":
					pos = strings.IndexByte(h, byte(c64))
				case "IndexRune", "ContainsRune":
					pos = strings.IndexRune(h, rune(c64))
				default:
					continue
				}
				if f.Name() == "ContainsRune" {
					env[x] = constant.MakeBool(pos >= 0)
				} else {
					env[x] = constant.MakeInt64(int64(pos))
				}
			case *ssa.If:
				cv, ok := val(x.Cond)
				if !ok || cv.Kind() != constant.Bool {
					return boUnknown
				}
				prev = b
				if constant.BoolVal(cv) {
					b = b.Succs[0]
				} else {
					b = b.Succs[1]
				}
				idx = -1
			case *ssa.Jump:
				prev = b
				b = b.Succs[0]
				idx = -1
			case *ssa.Return:
				cv, ok := val(an.RetVal(x, 0))
				if !ok || cv.Kind() != constant.Bool {
					return boUnknown
				}
				if constant.BoolVal(cv) {
					return boRetTrue
				}
				return boRetFalse
			case *ssa.DebugRef:
			default:
				if _, isVal := b.Instrs[idx].(ssa.Value); !isVal {
					// a store, a send, a panic ...: not a pure predicate
					return boUnknown
				}
			}
			if idx == -1 {
				break
			}
		}
		if idx != -1 {
			return boUnknown
		}
		idx = 0
		if b == hdr {
			return boContinue
		}
	}
	return boUnknown
}
