package props

import (
	"fmt"
	"go/token"
	"go/types"
	"strings"

	"mrocheck/an"

	"golang.org/x/tools/go/ssa"
)

func init() {
	Registry["C15"] = Entry{
		Run: runC15,
		Explanation: "Decides structural necessary conditions of 're-attach is refused iff the invocation's meaning changed': " +
			"S1 operand symmetry of every semantic-equivalence relation in package syntax (each comparison / nested relation call pairs a receiver-derived value with the corresponding argument-derived value; no self-comparison, no crossed fields), " +
			"S2 field coverage (each semantic field named by the property is read through both sides in the relation of its type), " +
			"S3 the comparison gates attachment in reattachToPipestance (byte equality with the recorded file and, unless that file is _mrosource itself, EquivalentCall; every refusal after locking unlocks), " +
			"S4 exclusivity (lock file written only when absent, after registering the signal handler, which only the lock owner registers; mutating entry points return early when read-only), " +
			"S5 the relations over collections (calls, parameters, struct members) compare every element, " +
			"S6 a parameter is accepted without comparing its type name only on an edge where IsFile() == KindIsFile was established (a plain file type may be renamed; composite types containing files may not). " +
			"S7 some function reachable from Ast.EquivalentCall reads the members of struct types (struct-typed parameters are not compared by name only). " +
			"S8 on the error edge of Pipestance.Lock no pipestance is returned. " +
			"S9 the lock file is removed only behind readOnly() == false; S10 the pipestance-level metadata cache is rescanned only by Lock or behind readOnly()/the readOnly parameter being false (Immortalize tabled). " +
			"S11 re-attach applies os.ExpandEnv when InvokePipeline does. " +
			"S12 a loop of the syntax package that skips elements by a set lookup keys the set by everything the skipped calls depend on. " +
			"S5 (round 9): the wildcard escape holds only if the loop continues from there. " +
			"NOT decided: completeness (that cosmetic edits are accepted), races between two simultaneous first starts.",
		Assumptions: commonAssumptions,
	}
}

var relationNames = map[string]bool{
	"EquivalentTo": true, "Equals": true, "equal": true, "Equal": true, "EquivalentCall": true,
	"equivalentSource": true, "indexEqual": true,
}

func runC15(c *an.Ctx) {
	ruleS1S2(c)
	ruleS5(c)
	ruleS3(c)
	ruleS4(c)
	ruleS6(c)
	ruleS7(c)
	ruleS8(c)
	ruleS9(c)
	ruleS10(c)
	ruleS11(c)
	ruleS13(c)
	ruleMemoKey(c, "S12", "martian/syntax")
}

func relationFuncs(c *an.Ctx) []*ssa.Function {
	var out []*ssa.Function
	for _, fn := range c.P.FuncsOf(pkgSyntax) {
		if fn.Parent() != nil {
			continue
		}
		// the equivalence relations live in equivalence.go (anchor file); relations with the
		// same names elsewhere (types' CheckEqual etc.) belong to C07/C17
		if !strings.HasSuffix(c.P.Fset.Position(fn.Pos()).Filename, "equivalence.go") {
			continue
		}
		if relationNames[fn.Name()] && fn.Name() != "indexEqual" {
			out = append(out, fn)
			continue
		}
		// helpers with the shape of a binary relation: f(a T, b T') with T == T' or T implementing T'
		if len(fn.Params) >= 2 && isRelationShape(fn.Params[0].Type(), fn.Params[1].Type()) {
			out = append(out, fn)
		}
	}
	return out
}

func isRelationShape(a, b types.Type) bool {
	if types.Identical(a, b) {
		_, isPtr := a.Underlying().(*types.Pointer)
		_, isIface := a.Underlying().(*types.Interface)
		return isPtr || isIface
	}
	if iface, ok := b.Underlying().(*types.Interface); ok && iface.NumMethods() > 0 {
		return types.Implements(a, iface)
	}
	return false
}

func recvTypeName(fn *ssa.Function) string {
	if fn.Signature.Recv() == nil {
		return ""
	}
	t := fn.Signature.Recv().Type()
	if p, ok := t.(*types.Pointer); ok {
		t = p.Elem()
	}
	if n, ok := t.(*types.Named); ok {
		return n.Obj().Name()
	}
	return ""
}

func ruleS1S2(c *an.Ctx) {
	p := c.P
	fns := relationFuncs(c)
	c.Floor("S1", "equivalence relations in equivalence.go", len(fns), 10)
	nSites := 0
	rels := map[string]*an.Relation{}
	relByFn := map[*ssa.Function]*an.Relation{}
	for _, fn := range fns {
		rel := an.NewRelation(fn)
		rels[recvTypeName(fn)+"."+fn.Name()] = rel
		relByFn[fn] = rel
		if len(rel.OSet) == 0 {
			c.Info("S1", "unary@"+an.FnName(fn), fn.Pos(), "no second operand")
			continue
		}
		for _, s := range rel.PairSites(relationNames) {
			key := fmt.Sprintf("pair(%s %s %s)@%s", an.StablePath(s.X), s.What, an.StablePath(s.Y), an.FnName(fn))
			key = short(key, 160)
			switch {
			case (s.CX == an.ClassR && s.CY == an.ClassR) || (s.CX == an.ClassO && s.CY == an.ClassO):
				nSites++
				c.Fail("S1", key, s.Instr.Pos(), "both operands derive from the "+s.CX.String()+" operand: the relation compares a value with itself / its own sibling, never with the other program")
			case (s.CX == an.ClassR && s.CY == an.ClassO) || (s.CX == an.ClassO && s.CY == an.ClassR):
				nSites++
				okSeg := s.SX == "" || s.SY == "" || s.SX == s.SY
				c.Check("S1", key, s.Instr.Pos(), okSeg,
					fmt.Sprintf("the two operands must be the same component of each side (found %q vs %q)", s.SX, s.SY))
			default:
				// mixed / neither: not a direct pairing of the two operands
			}
		}
	}
	c.Floor("S1", "pairing sites", nSites, 10)

	// S2 coverage
	type cov struct {
		rel     string
		typ     string
		fields  []string
		methods []string
	}
	covs := []cov{
		{"CallStm.EquivalentTo", "CallStm", []string{"Id", "Bindings", "Modifiers", "DecId"}, nil},
		{"Modifiers.EquivalentTo", "Modifiers", []string{"Local", "Preflight", "Bindings"}, nil},
		{"Stage.EquivalentTo", "Stage", []string{"Split", "InParams", "OutParams"}, nil},
		{"Pipeline.EquivalentTo", "Pipeline", []string{"InParams", "OutParams", "Calls", "Ret"}, nil},
		{"BindStm.Equals", "BindStm", []string{"Id", "Exp"}, nil},
		{"RefExp.equal", "RefExp", []string{"Kind", "Id", "OutputId"}, nil},
		{"StringExp.equal", "StringExp", []string{"Value"}, nil},
		{"BoolExp.equal", "BoolExp", []string{"Value"}, nil},
		{"IntExp.equal", "IntExp", []string{"Value"}, nil},
		{"FloatExp.equal", "FloatExp", []string{"Value"}, nil},
		{"ArrayExp.equal", "ArrayExp", []string{"Value"}, nil},
		{"MapExp.equal", "MapExp", []string{"Value"}, nil},
		{"SplitExp.equal", "SplitExp", []string{"Value"}, nil},
		{"InParams.Equals", "InParams", nil, []string{"GetArrayDim", "IsFile", "GetTname"}},
		{"OutParams.Equals", "OutParams", nil, []string{"GetArrayDim", "IsFile", "GetTname", "GetOutName"}},
	}
	for _, cv := range covs {
		rel := rels[cv.rel]
		if rel == nil {
			c.Undecided("S2", "relation("+cv.rel+")", token.NoPos, "relation method not found")
			continue
		}
		for _, fname := range cv.fields {
			f := p.Field(pkgSyntax, cv.typ, fname)
			if f == nil {
				// embedded (ValExp.Value etc.): search promoted field by name
				f = promotedField(p, cv.typ, fname)
			}
			if f == nil {
				c.Undecided("S2", "field("+cv.typ+"."+fname+")", token.NoPos, "field not found")
				continue
			}
			okR, okO := false, false
			for _, rr := range withHelpers(rel, relByFn) {
				okR = okR || rr.ReadsField(f, an.ClassR) || readsThroughAccessor(rr, f, an.ClassR)
				okO = okO || rr.ReadsField(f, an.ClassO) || readsThroughAccessor(rr, f, an.ClassO)
			}
			c.Check("S2", "covers("+cv.typ+"."+fname+")@"+cv.rel, rel.Fn.Pos(), okR && okO,
				fmt.Sprintf("the semantic field must be read from both programs (receiver side=%v, argument side=%v); a dropped clause makes differing programs compare equal", okR, okO))
		}
		for _, m := range cv.methods {
			okR, okO := false, false
			for _, rr := range withHelpers(rel, relByFn) {
				okR = okR || rr.CallsMethod(m, an.ClassR)
				okO = okO || rr.CallsMethod(m, an.ClassO)
			}
			c.Check("S2", "covers("+m+"())@"+cv.rel, rel.Fn.Pos(), okR && okO,
				fmt.Sprintf("the accessor must be consulted on both sides (receiver side=%v, argument side=%v)", okR, okO))
		}
	}
	// EquivalentCall delegates to CallStm.EquivalentTo with (ast.Call, other.Call)
	ec := c.NeedFunc(pkgSyntax, "(*Ast).EquivalentCall")
	ce := c.NeedFunc(pkgSyntax, "(*CallStm).EquivalentTo")
	if ec != nil && ce != nil {
		ok, _ := an.MustPass(ec, nil, func(in ssa.Instruction) bool {
			r, isRet := in.(*ssa.Return)
			if !isRet {
				return false
			}
			cv, isC := an.RetVal(r, 0).(*ssa.Const)
			return !(isC && cv.Value != nil && cv.Value.String() == "false")
		}, func(in ssa.Instruction) bool { return an.CalleeIs(in, ce) })
		c.Check("S2", "EquivalentCall-delegates", ec.Pos(), ok, "EquivalentCall may answer true only through CallStm.EquivalentTo")
	}
}

// readsThroughAccessor: the relation hands a value of class c to a one-operand helper of the package
// (a method with no further reference-typed parameter, or a function of one such parameter) that
// reads field f from that operand - the read counts for the side the operand belongs to.  Covers
// accessors extracted from a relation (x.disabledBinding() on both sides).
func readsThroughAccessor(r *an.Relation, f *types.Var, c an.Class) bool {
	found := false
	var readsFromParam func(h *ssa.Function, d int) bool
	readsFromParam = func(h *ssa.Function, d int) bool {
		if h == nil || h.Blocks == nil || len(h.Params) == 0 || d > 2 {
			return false
		}
		nRef := 0
		for _, prm := range h.Params {
			switch prm.Type().Underlying().(type) {
			case *types.Pointer, *types.Interface, *types.Map, *types.Slice:
				nRef++
			}
		}
		if nRef != 1 {
			return false
		}
		hr := an.NewRelation(h)
		if hr.ReadsField(f, an.ClassR) {
			return true
		}
		hit := false
		an.Instrs(h, func(in ssa.Instruction) {
			if call, ok := in.(*ssa.Call); ok {
				if g := call.Call.StaticCallee(); g != nil && g.Pkg == h.Pkg && len(call.Call.Args) > 0 && hr.ClassOf(call.Call.Args[0])&an.ClassR != 0 {
					if readsFromParam(g, d+1) {
						hit = true
					}
				}
			}
		})
		return hit
	}
	an.Instrs(r.Fn, func(in ssa.Instruction) {
		call, ok := in.(*ssa.Call)
		if !ok || found {
			return
		}
		h := call.Call.StaticCallee()
		if h == nil || h.Pkg != r.Fn.Pkg || len(call.Call.Args) == 0 {
			return
		}
		if r.ClassOf(call.Call.Args[0])&c == 0 {
			return
		}
		if readsFromParam(h, 0) {
			found = true
		}
	})
	return found
}

// withHelpers: rel plus the relations (same file) it calls with its own two
// operands in the same roles (an extracted helper keeps the coverage).
func withHelpers(rel *an.Relation, all map[*ssa.Function]*an.Relation) []*an.Relation {
	out := []*an.Relation{rel}
	seen := map[*ssa.Function]bool{rel.Fn: true}
	var add func(r *an.Relation, d int)
	add = func(r *an.Relation, d int) {
		if d > 2 {
			return
		}
		an.Instrs(r.Fn, func(in ssa.Instruction) {
			call, ok := in.(*ssa.Call)
			if !ok {
				return
			}
			callee := call.Call.StaticCallee()
			h, isRel := all[callee]
			if !isRel || seen[callee] || len(call.Call.Args) < 2 {
				return
			}
			// helper(recv-side, arg-side): the operands themselves, not components
			// helper(recv-side value, arg-side value): the operands themselves or corresponding
			// components (one element of each side's collection)
			if r.ClassOf(call.Call.Args[0]) == an.ClassR && r.ClassOf(call.Call.Args[1]) == an.ClassO {
				seen[callee] = true
				out = append(out, h)
				add(h, d+1)
			}
		})
	}
	add(rel, 0)
	return out
}

func promotedField(p *an.Prog, typ, field string) *types.Var {
	n := p.Named(pkgSyntax, typ)
	if n == nil {
		return nil
	}
	obj, _, _ := types.LookupFieldOrMethod(n, true, n.Obj().Pkg(), field)
	v, _ := obj.(*types.Var)
	return v
}

func ruleS3(c *an.Ctx) {
	p := c.P
	fn := c.NeedFunc(pkgCore, "(*Runtime).reattachToPipestance")
	if fn == nil {
		return
	}
	var checkSrc, readOnly *ssa.Parameter
	for _, prm := range fn.Params {
		switch prm.Name() {
		case "checkSrc":
			checkSrc = prm
		case "readOnly":
			readOnly = prm
		}
	}
	if checkSrc == nil || readOnly == nil {
		c.Undecided("S3", "params(checkSrc, readOnly)", fn.Pos(), "parameters not found")
		return
	}
	isCheckSrcFalse := func(r an.Rel) bool { return r.Op == token.ILLEGAL && !r.Truth && an.ParamOf(r.X) == checkSrc }
	isCallTrue := func(r an.Rel, pkg, name string) bool {
		if r.Op != token.ILLEGAL || !r.Truth {
			return false
		}
		call, ok := r.X.(*ssa.Call)
		if !ok {
			return false
		}
		f := call.Call.StaticCallee()
		return f != nil && f.Name() == name && f.Pkg != nil && f.Pkg.Pkg.Path() == pkg
	}
	var success []*ssa.Return
	an.Instrs(fn, func(in ssa.Instruction) {
		if r, ok := in.(*ssa.Return); ok && len(r.Results) == 2 && an.IsNil(an.RetVal(r, 1)) {
			success = append(success, r)
		}
	})
	c.Floor("S3", "success returns of reattachToPipestance", len(success), 1)
	mroSrc := p.Const(pkgCore, "MroSourceFile")
	for _, r := range success {
		g1, w1 := an.GuardedBy(r, func(rel an.Rel) bool { return isCheckSrcFalse(rel) || isCallTrue(rel, "bytes", "Equal") })
		c.Check("S3", "attach-requires-identical-recorded-source", r.Pos(), g1,
			"with checkSrc the supplied source must equal the recorded one byte for byte; "+c.WitnessString(w1))
		g2, w2 := an.GuardedBy(r, func(rel an.Rel) bool {
			if isCheckSrcFalse(rel) || isCallTrue(rel, syntaxPath, "EquivalentCall") {
				return true
			}
			// srcType == MroSourceFile
			return rel.Op == token.EQL && (an.IsConst(rel.Y, mroSrc) || an.IsConst(rel.X, mroSrc))
		})
		c.Check("S3", "attach-requires-equivalent-call", r.Pos(), g2,
			"with checkSrc (and a source other than _mrosource) attachment must be dominated by ast.EquivalentCall(oldAst) == true; "+c.WitnessString(w2))
	}
	// the byte comparison compares the supplied source with the recorded file of the same kind
	an.Instrs(fn, func(in ssa.Instruction) {
		if call, ok := an.IsPkgFuncCall(in, "bytes", "Equal"); ok {
			t := an.NewTaint(0, nil)
			for _, prm := range fn.Params {
				if prm.Name() == "srcType" || prm.Name() == "pipestancePath" {
					t.Add(prm)
				}
			}
			t.Run()
			args := call.Common().Args
			c.Check("S3", "byte-comparison-against-recorded-file", in.Pos(), t.Has(args[0]) || t.Has(args[1]),
				"one operand of the byte comparison must be read from the pipestance's recorded source file")
		}
	})
	// refusals after the lock was taken unlock (unless read-only)
	inst := p.Func(pkgCore, "(*Runtime).instantiatePipeline")
	unlock := p.Func(pkgCore, "(*Pipestance).Unlock")
	if inst != nil && unlock != nil {
		for _, call := range callsTo(fn, inst) {
			// from the err == nil edge of instantiatePipeline, every return with a non-nil error passes Unlock or readOnly
			var errVal ssa.Value
			for _, ref := range an.Referrers(call.Value()) {
				if ex, ok := ref.(*ssa.Extract); ok && ex.Index == 3 {
					errVal = ex
				}
			}
			for _, b := range fn.Blocks {
				for _, s := range b.Succs {
					cnd, t, ok := an.EdgeCond(b, s)
					if !ok {
						continue
					}
					r := an.Normalize(cnd, t)
					if !(r.Op == token.EQL && r.X == errVal && an.IsNil(r.Y)) {
						continue
					}
					// search from s
					bad := findFrom(s, func(in ssa.Instruction) bool {
						ret, ok := in.(*ssa.Return)
						return ok && len(ret.Results) == 2 && !an.IsNil(an.RetVal(ret, 1))
					}, func(in ssa.Instruction) bool {
						if an.CalleeIs(in, unlock) {
							return true
						}
						// a local closure that gives the lock back unless read-only
						// (release := func() { if !readOnly { pipestance.Unlock() } })
						if cl := an.AsCallAny(in); cl != nil {
							if g := cl.Common().StaticCallee(); g != nil && g.Parent() == fn && g.Blocks != nil {
								w := an.Query{Fn: g, Target: an.IsReturn,
									Barrier: func(x ssa.Instruction) bool { return an.CalleeIs(x, unlock) },
									BarrierEdge: func(from, to *ssa.BasicBlock) bool {
										return an.EdgeHolds(from, to, func(r an.Rel) bool {
											return r.Op == token.ILLEGAL && r.Truth && an.ParamOf(r.X) == readOnly
										})
									}}.Find()
								return w == nil
							}
						}
						return false
					},
						func(from, to *ssa.BasicBlock) bool {
							return an.EdgeHolds(from, to, func(r an.Rel) bool {
								return r.Op == token.ILLEGAL && r.Truth && an.ParamOf(r.X) == readOnly
							})
						})
					c.Check("S3", "refusal-unlocks", call.Pos(), !bad,
						"every refusal after the pipestance was locked must unlock it (unless read-only)")
				}
			}
		}
	}
}

// findFrom: is a target reachable from the top of block b avoiding barriers?
func findFrom(b *ssa.BasicBlock, target, barrier func(ssa.Instruction) bool, barrierEdge func(from, to *ssa.BasicBlock) bool) bool {
	seen := map[*ssa.BasicBlock]bool{}
	var walk func(x *ssa.BasicBlock) bool
	walk = func(x *ssa.BasicBlock) bool {
		if seen[x] {
			return false
		}
		seen[x] = true
		for _, in := range x.Instrs {
			if barrier != nil && barrier(in) {
				return false
			}
			if target(in) {
				return true
			}
		}
		for _, s := range x.Succs {
			if barrierEdge != nil && barrierEdge(x, s) {
				continue
			}
			if walk(s) {
				return true
			}
		}
		return false
	}
	return walk(b)
}

func ruleS4(c *an.Ctx) {
	p := c.P
	lock := c.NeedFunc(pkgCore, "(*Pipestance).Lock")
	if lock == nil {
		return
	}
	n := 0
	an.Instrs(lock, func(in ssa.Instruction) {
		if !writesFile(p, in, "Lock") {
			return
		}
		n++
		g, w := an.GuardedBy(in, func(r an.Rel) bool { return r.Op == token.ILLEGAL && !r.Truth && existsCallOf(p, r.X, "Lock") })
		c.Check("S4", "lock-written-only-if-absent@(*Pipestance).Lock", in.Pos(), g, "the lock file may be written only on the edge where it did not exist; "+c.WitnessString(w))
		ok, w2 := an.MustPass(lock, nil, func(x ssa.Instruction) bool { return x == in }, func(x ssa.Instruction) bool {
			_, ok := an.IsPkgFuncCall(x, utilPath, "RegisterSignalHandler")
			return ok
		})
		c.Check("S4", "handler-registered-before-lock@(*Pipestance).Lock", in.Pos(), ok, "the signal handler that removes the lock must be registered before the lock is written; "+c.WitnessString(w2))
		isLoad := func(x ssa.Instruction) bool {
			call := an.AsCall(x)
			return call != nil && call.Common().StaticCallee() != nil && call.Common().StaticCallee().Name() == "loadCache"
		}
		loader := &an.MustDo{Pred: isLoad, Depth: 1}
		ok3, w3 := an.MustPass(lock, nil, func(x ssa.Instruction) bool { return x == in }, func(x ssa.Instruction) bool {
			if isLoad(x) {
				return true
			}
			// a predicate of the package that rescans the directory itself (lockFilePresent)
			if call := an.AsCall(x); call != nil {
				if h := call.Common().StaticCallee(); h != nil && h.Blocks != nil && h.Pkg == lock.Pkg {
					return loader.Fn(h)
				}
			}
			return false
		})
		c.Check("S4", "cache-loaded-before-lock-test@(*Pipestance).Lock", in.Pos(), ok3, "the directory must be (re)read before testing for an existing lock; "+c.WitnessString(w3))
	})
	c.Floor("S4", "writes of the lock file in Pipestance.Lock", n, 1)
	// only the owner of the lock may be registered as a signal handler: HandleSignal removes the lock
	// file unconditionally, so a pipestance that was refused (lock held by a live mrp) must not be
	// registered - its process would delete the other mrp's lock when it exits.
	nReg := 0
	for _, fn := range coreFns(c) {
		an.Instrs(fn, func(in ssa.Instruction) {
			call, ok := an.IsPkgFuncCall(in, utilPath, "RegisterSignalHandler")
			if !ok || len(call.Common().Args) != 1 {
				return
			}
			mi, ok := call.Common().Args[0].(*ssa.MakeInterface)
			if !ok || !strings.HasSuffix(mi.X.Type().String(), "core.Pipestance") {
				return
			}
			nReg++
			if fn != lock {
				c.Fail("S4", "handler-registered-only-by-lock-owner@"+an.FnName(fn), in.Pos(), "a Pipestance is registered as a signal handler outside Pipestance.Lock: its HandleSignal removes the lock file whether or not this process holds it")
				return
			}
			g, w := an.GuardedBy(in, func(r an.Rel) bool { return r.Op == token.ILLEGAL && !r.Truth && existsCallOf(p, r.X, "Lock") })
			c.Check("S4", "handler-registered-only-by-lock-owner@(*Pipestance).Lock", in.Pos(), g,
				"the pipestance may be registered as a signal handler only on the edge where the lock file did not exist: HandleSignal removes the lock unconditionally, so a refused mrp would delete the live mrp's lock on exit and a third mrp could then attach for writing; "+c.WitnessString(w))
		})
	}
	c.Floor("S4", "registrations of a Pipestance as signal handler", nReg, 1)
	// the lock file is written nowhere else
	for _, fn := range coreFns(c) {
		if fn == lock {
			continue
		}
		an.Instrs(fn, func(in ssa.Instruction) {
			if writesFile(p, in, "Lock") {
				c.Fail("S4", "lock-written-elsewhere@"+an.FnName(fn), in.Pos(), "the lock file may only be written by Pipestance.Lock")
			}
		})
	}
	// HandleSignal removes the lock
	hs := c.NeedFunc(pkgCore, "(*Pipestance).HandleSignal")
	if hs != nil {
		isRemove := func(in ssa.Instruction) bool {
			call := an.AsCall(in)
			if call == nil || call.Common().StaticCallee() == nil || call.Common().StaticCallee().Name() != "remove" {
				return false
			}
			return len(call.Common().Args) == 2 && an.IsConst(call.Common().Args[1], p.Const(pkgCore, "Lock"))
		}
		roFn := p.Func(pkgCore, "(*Pipestance).readOnly")
		// every path removes the lock file, except on the edge where this object does not hold it
		// (readOnly() is true exactly then: the lock is absent from this mrp's own view)
		var removes func(fn *ssa.Function, d int) bool
		removes = func(fn *ssa.Function, d int) bool {
			if fn == nil || fn.Blocks == nil || d > 2 {
				return false
			}
			w := an.Query{Fn: fn, Target: an.IsReturn,
				Barrier: func(in ssa.Instruction) bool {
					if isRemove(in) {
						return true
					}
					if call := an.AsCall(in); call != nil {
						if g := call.Common().StaticCallee(); g != nil && g != roFn && g.Pkg == fn.Pkg {
							return removes(g, d+1)
						}
					}
					return false
				},
				BarrierEdge: func(from, to *ssa.BasicBlock) bool {
					return roFn != nil && an.EdgeHolds(from, to, func(r an.Rel) bool {
						cl, ok := r.X.(*ssa.Call)
						return ok && r.Op == token.ILLEGAL && r.Truth && cl.Call.StaticCallee() == roFn
					})
				}}.Find()
			return w == nil
		}
		md := struct{ Fn func(*ssa.Function) bool }{Fn: func(f *ssa.Function) bool { return removes(f, 0) }}
		c.Check("S4", "signal-removes-lock@(*Pipestance).HandleSignal", hs.Pos(), md.Fn(hs), "a handled termination signal must remove the lock file")
	}
	// mutating entry points return early when read-only
	readOnly := c.NeedFunc(pkgCore, "(*Pipestance).readOnly")
	if readOnly != nil {
		for _, name := range []string{"(*Pipestance).StepNodes", "(*Pipestance).Reset", "(*Pipestance).RestartLocalJobs", "(*Pipestance).RestartRunningNodes", "(*Pipestance).KillWithMessage"} {
			fn := c.NeedFunc(pkgCore, name)
			if fn == nil {
				continue
			}
			// every effectful call (any call other than readOnly/trace) is guarded by readOnly()==false
			var first ssa.Instruction
			an.Instrs(fn, func(in ssa.Instruction) {
				if first != nil {
					return
				}
				call, ok := in.(*ssa.Call)
				if !ok {
					return
				}
				f := call.Call.StaticCallee()
				if f == nil || f.Pkg == nil || f.Pkg.Pkg.Path() != corePath || f == readOnly {
					return
				}
				first = in
			})
			if first == nil {
				c.Undecided("S4", "readonly-guard@"+name, fn.Pos(), "no effectful call found")
				continue
			}
			ok := true
			an.Instrs(fn, func(in ssa.Instruction) {
				call, isCall := in.(*ssa.Call)
				if !isCall {
					return
				}
				f := call.Call.StaticCallee()
				if f == nil || f.Pkg == nil || f.Pkg.Pkg.Path() != corePath || f == readOnly {
					return
				}
				g, _ := an.GuardedBy(in, func(r an.Rel) bool {
					if r.Op != token.ILLEGAL || r.Truth {
						return false
					}
					cl, ok := r.X.(*ssa.Call)
					return ok && cl.Call.StaticCallee() == readOnly
				})
				if !g {
					ok = false
				}
			})
			c.Check("S4", "readonly-guard@"+name, fn.Pos(), ok, "a pipestance attached without the lock must not be stepped, reset, restarted or killed")
		}
	}
}

// ruleS5: element-wise relations compare EVERY element: in the loop over the
// receiver's collection each iteration that lets the relation continue must
// have crossed the true edge of the element relation (or a tabled escape).
func ruleS5(c *an.Ctx) {
	p := c.P
	type spec struct {
		fn, typ, field string
		elemRel        []string // names of the element relation
		failIsNonNil   bool     // relation returns an error (nil = equal) instead of a bool
		escape         func(r an.Rel) bool
	}
	isWildcard := func(r an.Rel) bool {
		return r.Op == token.EQL && (an.IsStringConst(r.Y, "*") || an.IsStringConst(r.X, "*"))
	}
	specs := []spec{
		{"(*Pipeline).EquivalentTo", "Pipeline", "Calls", []string{"EquivalentTo"}, false, nil},
		{"(*BindStms).Equals", "BindStms", "List", []string{"Equals"}, false, isWildcard},
		{"(*ArrayExp).equal", "ArrayExp", "Value", []string{"equal"}, true, nil},
		{"(*MapExp).equal", "MapExp", "Value", []string{"equal"}, true, nil},
	}
	for _, sp := range specs {
		fn := c.NeedFunc(pkgSyntax, sp.fn)
		f := p.Field(pkgSyntax, sp.typ, sp.field)
		if f == nil {
			f = promotedField(p, sp.typ, sp.field)
		}
		if fn == nil || f == nil {
			c.Undecided("S5", "anchor("+sp.fn+")", token.NoPos, "relation or collection field not found")
			continue
		}
		// loop element: a load of an element of recv.<field> (slice) or the Next of a range over it (map).
		// The loop may have been moved into a helper that receives recv.<field> as an argument.
		isColl := func(v ssa.Value) bool { return an.LoadsField(v, f) && an.RootOf(v) == ssa.Value(fn.Params[0]) }
		elemsIn := func(host *ssa.Function, coll func(ssa.Value) bool) []ssa.Instruction {
			var out []ssa.Instruction
			an.Instrs(host, func(in ssa.Instruction) {
				switch x := in.(type) {
				case *ssa.UnOp:
					if ia, ok := x.X.(*ssa.IndexAddr); ok && x.Op == token.MUL && coll(ia.X) {
						out = append(out, in)
					}
				case *ssa.Next:
					if rg, ok := x.Iter.(*ssa.Range); ok && coll(rg.X) {
						out = append(out, in)
					}
				}
			})
			return out
		}
		host := fn
		elems := elemsIn(fn, isColl)
		if len(elems) == 0 {
			an.Instrs(fn, func(in ssa.Instruction) {
				call, ok := in.(*ssa.Call)
				if !ok || len(elems) > 0 {
					return
				}
				h := call.Call.StaticCallee()
				if h == nil || h.Blocks == nil || h.Pkg != fn.Pkg {
					return
				}
				for i, a := range call.Call.Args {
					if i >= len(h.Params) {
						continue
					}
					prm := h.Params[i]
					var collInHelper func(v ssa.Value) bool
					switch {
					case isColl(a):
						collInHelper = func(v ssa.Value) bool { return v == ssa.Value(prm) }
					case a == ssa.Value(fn.Params[0]):
						// the relation's own receiver handed on: the helper loops over recv.<field> itself
						collInHelper = func(v ssa.Value) bool { return an.LoadsField(v, f) && an.RootOf(v) == ssa.Value(prm) }
					}
					if collInHelper != nil {
						if es := elemsIn(h, collInHelper); len(es) > 0 {
							// fn may report equality only through the helper's verdict
							viaHelper := true
							an.Instrs(fn, func(in2 ssa.Instruction) {
								ret, ok := in2.(*ssa.Return)
								if !ok {
									return
								}
								v := an.RetVal(ret, 0)
								if v == ssa.Value(call) {
									return
								}
								equal := false
								if sp.failIsNonNil {
									equal = an.IsNil(v)
								} else if cv, isC := v.(*ssa.Const); isC && cv.Value != nil && cv.Value.String() == "true" {
									equal = true
								}
								if !equal {
									if _, isC := v.(*ssa.Const); isC {
										return
									}
								}
								// an "equal" (or computed) verdict must be dominated by the helper saying so
								g, _ := an.GuardedBy(ret, func(r an.Rel) bool {
									if sp.failIsNonNil {
										return r.Op == token.EQL && r.X == ssa.Value(call) && an.IsNil(r.Y)
									}
									return r.Op == token.ILLEGAL && r.Truth && r.X == ssa.Value(call)
								})
								// verdicts reached without running the loop at all (early outs before the call) are
								// the relation's other clauses: only paths *after* the call matter
								if !g && an.Reachable(fn, call, func(x ssa.Instruction) bool { return x == ssa.Instruction(ret) }) {
									viaHelper = false
								}
							})
							if viaHelper {
								host, elems = h, es
							}
						}
					}
				}
			})
		}
		if len(elems) == 0 {
			c.Fail("S5", "elements-compared@"+sp.fn, fn.Pos(), "the relation no longer iterates over "+sp.typ+"."+sp.field+" (neither itself nor in a helper it hands the collection to and whose verdict it returns)")
			continue
		}
		isElemRelOK := func(r an.Rel) bool {
			var call *ssa.Call
			if sp.failIsNonNil {
				if r.Op != token.EQL || !an.IsNil(r.Y) {
					return false
				}
				call, _ = r.X.(*ssa.Call)
			} else {
				if r.Op != token.ILLEGAL || !r.Truth {
					return false
				}
				call, _ = r.X.(*ssa.Call)
			}
			if call == nil {
				return false
			}
			name := ""
			if fn := call.Call.StaticCallee(); fn != nil {
				name = fn.Name()
			} else if call.Call.IsInvoke() {
				name = call.Call.Method.Name()
			}
			for _, n := range sp.elemRel {
				if n == name {
					return true
				}
			}
			return false
		}
		for _, S := range elems {
			// targets: the same element load again (next iteration) or a return that reports "equal"
			w := an.Query{Fn: host, After: S,
				Target: func(in ssa.Instruction) bool {
					if in == S {
						return true
					}
					ret, ok := in.(*ssa.Return)
					if !ok {
						return false
					}
					v := an.RetVal(ret, 0)
					if sp.failIsNonNil {
						return an.IsNil(v)
					}
					cv, isC := v.(*ssa.Const)
					return isC && cv.Value != nil && cv.Value.String() == "true"
				},
				BarrierEdge: func(from, to *ssa.BasicBlock) bool {
					cnd, t, ok := an.EdgeCond(from, to)
					if !ok {
						return false
					}
					r := an.Normalize(cnd, t)
					if isElemRelOK(r) {
						return true
					}
					if sp.escape != nil && sp.escape(r) {
						// the escape skips THIS element: the loop must go on from there (a `break` at
						// the wildcard leaves the entries after it uncompared - round 9)
						if blockReaches(to, S.Block()) {
							return true
						}
					}
					// map range: loop exit edge belongs to the header, not to an iteration
					if nx, isNext := S.(*ssa.Next); isNext {
						if ex, isEx := cnd.(*ssa.Extract); isEx && ex.Tuple == ssa.Value(nx) && ex.Index == 0 && !t {
							return true
						}
					}
					return false
				}}.Find()
			c.Check("S5", "every-element-compared@"+sp.fn, S.Pos(), w == nil,
				"each element of "+sp.typ+"."+sp.field+" must be compared with the full element relation before the relation can report equality; "+c.WitnessString(w))
		}
	}
}

// S6: file type names may change between equivalent invocations, declared types may not.  The
// parameter comparison may therefore skip the type-name comparison only for parameters whose file kind
// is exactly KindIsFile.  For every function that compares GetTname() of the two sides: from the first
// per-parameter accessor call, every path to "this parameter matches" (the next iteration, or a return
// that is not the constant false) evaluates the type-name comparison or crosses an edge on which
// IsFile() == KindIsFile holds (the edge may come from a predicate helper).
func ruleS6(c *an.Ctx) {
	p := c.P
	kindIsFile := p.Const(pkgSyntax, "KindIsFile")
	if kindIsFile == nil {
		c.Undecided("S6", "anchor(KindIsFile)", token.NoPos, "constant not found")
		return
	}
	calleeName := func(call *ssa.Call) string {
		if call.Call.IsInvoke() {
			return call.Call.Method.Name()
		}
		if f := call.Call.StaticCallee(); f != nil && f.Signature.Recv() != nil {
			return f.Name()
		}
		return ""
	}
	invokeNamed := func(v ssa.Value, name string) bool {
		call, ok := an.Strip(v).(*ssa.Call)
		return ok && calleeName(call) == name
	}
	n := 0
	for _, fn := range p.FuncsOf(pkgSyntax) {
		var cmp *ssa.BinOp
		an.Instrs(fn, func(in ssa.Instruction) {
			b, ok := in.(*ssa.BinOp)
			if ok && (b.Op == token.EQL || b.Op == token.NEQ) && invokeNamed(b.X, "GetTname") && invokeNamed(b.Y, "GetTname") {
				cmp = b
			}
		})
		if cmp == nil {
			continue
		}
		// the iteration starts at the first accessor call on a parameter
		var start ssa.Instruction
		for _, b := range fn.Blocks {
			for _, in := range b.Instrs {
				if call, ok := in.(*ssa.Call); ok && start == nil {
					switch calleeName(call) {
					case "GetArrayDim", "IsFile", "GetTname":
						start = in
					}
				}
			}
		}
		if start == nil {
			continue
		}
		n++
		w := an.Query{Fn: fn, After: start,
			Target: func(in ssa.Instruction) bool {
				if in == start {
					return true
				}
				r, ok := in.(*ssa.Return)
				if !ok || len(r.Results) == 0 {
					return false
				}
				cv, isC := an.RetVal(r, 0).(*ssa.Const)
				return !(isC && cv.Value != nil && cv.Value.String() == "false")
			},
			Barrier: func(in ssa.Instruction) bool { return in == ssa.Instruction(cmp) },
			BarrierEdge: func(from, to *ssa.BasicBlock) bool {
				return an.EdgeHolds(from, to, func(r an.Rel) bool {
					if r.Op != token.EQL {
						return false
					}
					return (invokeNamed(r.X, "IsFile") && an.IsConst(r.Y, kindIsFile)) || (invokeNamed(r.Y, "IsFile") && an.IsConst(r.X, kindIsFile))
				})
			}}.Find()
		c.Check("S6", "type-name-compared-unless-plain-file@"+an.FnName(fn), cmp.Pos(), w == nil,
			"a parameter may be accepted without comparing GetTname() only where IsFile() == KindIsFile was established (file type names are cosmetic; struct, map and array-of-file types are not); "+c.WitnessString(w))
	}
	c.Floor("S6", "functions comparing the declared type names of parameters", n, 1)
}

// blockReaches: b can reach target along CFG edges (b == target counts).
func blockReaches(b, target *ssa.BasicBlock) bool {
	seen := map[*ssa.BasicBlock]bool{}
	var walk func(x *ssa.BasicBlock) bool
	walk = func(x *ssa.BasicBlock) bool {
		if x == target {
			return true
		}
		if seen[x] {
			return false
		}
		seen[x] = true
		for _, s := range x.Succs {
			if walk(s) {
				return true
			}
		}
		return false
	}
	return walk(b)
}
