package props

import (
	"fmt"
	"go/token"
	"go/types"
	"sort"
	"strings"

	"mrocheck/an"

	"golang.org/x/tools/go/ssa"
)

func init() {
	Registry["C08"] = Entry{
		Run: runC08,
		Explanation: "Decides structural necessary conditions of 'the parser is total' for the parse stage: " +
			"P1 panic barrier: every caller of the generated parser mmParse registers, on all paths before the call, a deferred closure that calls recover(), never panics again, and on the non-nil edge turns the function's result into a parse failure; mmParse has no other callers, so every exported parse entry point goes through the barrier - whatever panics in the lexer, a grammar action or a literal conversion becomes a located error, " +
			"P2 lexer progress: nextToken returns a token other than INVALID only with a non-empty match, and every iteration of the Lex loop advances the cursor by the match length, " +
			"P3 include recursion is bounded: a file is parsed recursively only when it is not yet in the processed set, and it is inserted before the recursive call; the includer graph stays acyclic: an edge is added to an already known file only where the cycle check (a recursive walker over SourceFile.IncludedFrom) returned nil, or every such walker carries a visited set, " +
			"P5 the nil *Pipeline with which the top-level call is compiled (followed from the literal nil through direct argument passing) is never dereferenced without a dominating nil test. " +
			"P7 attachComments allocates nothing sized by the remaining comments; P8 ErrorList.If never returns a slice of its receiver as the list. " +
			"P9 every strings.Repeat / bytes.Repeat count is a non-negative constant, clamped, guarded, or a difference whose minuend is an unconditional running maximum at every origin; P10 every error returned by the type registration functions is nil or a located wrapError; P11 every successful return of compilePipelineDecs has passed a search for cycles of pipeline calls. " +
			"P12 the call-mode panic of MergeExp.BindingPath is dominated by the arm for null sources. " +
			"P13 every insertion into a dependency set of directDepsMap is dominated by a comparison of the two calls. " +
			"NOT decided: other panics in the compile phase (enumerated as information), index panics in error rendering, time/memory proportionality, errors without a position.",
		Assumptions: append([]string{"Go's regexp is linear-time (RE2); the goyacc skeleton is trusted"}, commonAssumptions...),
	}
}

func runC08(c *an.Ctx) {
	p := c.P
	mmParse := c.NeedFunc(pkgSyntax, "mmParse")
	if mmParse == nil {
		return
	}
	// ---------------- P1 ----------------
	callers := p.Callers(mmParse)
	var names []string
	for f := range callers {
		names = append(names, an.FnName(f))
	}
	c.Check("P1", "callers(mmParse)", mmParse.Pos(), len(callers) >= 1, fmt.Sprintf("callers: %v", names))
	for caller, sites := range callers {
		for _, site := range sites {
			in := site.(ssa.Instruction)
			if _, isGo := site.(*ssa.Go); isGo {
				c.Fail("P1", "barrier@"+an.FnName(caller), in.Pos(), "mmParse started in a goroutine: a panic there cannot be recovered by the caller")
				continue
			}
			var why string
			ok, w := an.MustPass(caller, nil, func(x ssa.Instruction) bool { return x == in }, func(x ssa.Instruction) bool {
				d, isDefer := x.(*ssa.Defer)
				if !isDefer {
					return false
				}
				good, reason := isRecoverBarrier(caller, d)
				if !good {
					why = reason
				}
				return good
			})
			c.Check("P1", "barrier@"+an.FnName(caller), in.Pos(), ok,
				"every path to mmParse must first register a deferred recover() that converts a panic into a parse failure; "+why+" "+c.WitnessString(w))
		}
	}
	// the barrier function is not itself called in a goroutine without its own barrier: entry points
	entry := []string{"(*Parser).ParseSourceBytes", "(*Parser).UncheckedParse", "(*Parser).UncheckedParseIncludes", "(*Parser).ParseValExp", "(*Parser).FormatSrcBytes", "(*Parser).Compile"}
	for _, e := range entry {
		fn := c.NeedFunc(pkgSyntax, e)
		if fn == nil {
			continue
		}
		// reaches mmParse only through callers of mmParse that carry the barrier: since callers(mmParse) are all checked, it
		// suffices that the entry point does reach mmParse
		reaches := an.MayDo(fn, func(x ssa.Instruction) bool {
			cl, ok := x.(ssa.CallInstruction)
			return ok && cl.Common().StaticCallee() == mmParse
		}, 8)
		c.Check("P1", "entry-reaches-parser("+e+")", fn.Pos(), reaches, "the exported entry point parses through mmParse (and therefore through the barrier)")
	}

	// ---------------- P2 ----------------
	next := c.NeedFunc(pkgSyntax, "nextToken")
	invalid := p.Const(pkgSyntax, "INVALID")
	if next != nil && invalid != nil {
		n := 0
		an.Instrs(next, func(in ssa.Instruction) {
			r, ok := in.(*ssa.Return)
			if !ok || len(r.Results) != 2 {
				return
			}
			if an.IsConst(an.RetVal(r, 0), invalid) {
				return
			}
			n++
			val := an.RetVal(r, 1)
			g, w := an.GuardedBy(r, func(rel an.Rel) bool {
				args, isLen := an.IsBuiltinCall(rel.X, "len")
				return rel.Op == token.GTR && isLen && args[0] == val && an.IsIntConst(rel.Y, 0)
			})
			c.Check("P2", "token-nonempty@nextToken", r.Pos(), g, "a token other than INVALID must be returned only with a non-empty match (otherwise the lexer does not advance); "+c.WitnessString(w))
		})
		c.Floor("P2", "non-INVALID returns in nextToken", n, 1)
	}
	lex := c.NeedFunc(pkgSyntax, "(*mmLexInfo).Lex")
	posF := p.Field(pkgSyntax, "mmLexInfo", "pos")
	if lex != nil && next != nil && posF != nil {
		for _, call := range callsTo(lex, next) {
			in := call.(ssa.Instruction)
			// from one scan to the next scan the cursor was advanced by len(val)
			advance := func(x ssa.Instruction) bool {
				st, ok := x.(*ssa.Store)
				if !ok {
					return false
				}
				_, f := an.FieldOfAddr(st.Addr)
				if f != posF {
					return false
				}
				b, ok := st.Val.(*ssa.BinOp)
				if !ok || b.Op != token.ADD {
					return false
				}
				args, isLen := an.IsBuiltinCall(b.Y, "len")
				if !isLen {
					return false
				}
				ex, ok := args[0].(*ssa.Extract)
				return ok && ex.Tuple == call.Value() && ex.Index == 1
			}
			w := an.Query{Fn: lex, After: in, Target: func(x ssa.Instruction) bool { return x == in }, Barrier: advance}.Find()
			c.Check("P2", "cursor-advances-each-iteration@(*mmLexInfo).Lex", in.Pos(), w == nil, "every iteration of the scan loop must advance pos by the length of the match; "+c.WitnessString(w))
			// the loop ends at the end of input
			g, _ := an.GuardedBy(in, func(r an.Rel) bool {
				args, isLen := an.IsBuiltinCall(r.Y, "len")
				return r.Op == token.LSS && an.LoadsField(r.X, posF) && isLen && args != nil
			})
			c.Check("P2", "scan-only-before-end@(*mmLexInfo).Lex", in.Pos(), g, "scanning happens only while pos < len(src)")
		}
	}

	// ---------------- P3 ----------------
	getInc := c.NeedFunc(pkgSyntax, "(*Parser).getIncludes")
	parseSource := c.NeedFunc(pkgSyntax, "(*Parser).parseSource")
	if getInc != nil && parseSource != nil {
		var processed *ssa.Parameter
		for _, prm := range getInc.Params {
			if strings.HasPrefix(prm.Type().String(), "map[string]*") {
				processed = prm
			}
		}
		sites := callsTo(getInc, parseSource)
		c.Floor("P3", "recursive parseSource calls in getIncludes", len(sites), 1)
		for _, s := range sites {
			in := s.(ssa.Instruction)
			g, w := an.GuardedBy(in, func(r an.Rel) bool {
				lk, ok := r.X.(*ssa.Lookup)
				return r.Op == token.EQL && an.IsNil(r.Y) && ok && lk.X == ssa.Value(processed)
			})
			c.Check("P3", "include-parsed-once@(*Parser).getIncludes", in.Pos(), g, "an included file is parsed only if it is not yet in the processed set; "+c.WitnessString(w))
			ok, w2 := an.MustPass(getInc, nil, func(x ssa.Instruction) bool { return x == in }, func(x ssa.Instruction) bool {
				mu, isMu := x.(*ssa.MapUpdate)
				return isMu && mu.Map == ssa.Value(processed)
			})
			c.Check("P3", "include-marked-before-recursion@(*Parser).getIncludes", in.Pos(), ok, "the file is inserted into the processed set before it is parsed (cycles terminate); "+c.WitnessString(w2))
			// the processed set is passed down
			passed := false
			for _, a := range s.Common().Args {
				if a == ssa.Value(processed) {
					passed = true
				}
			}
			c.Check("P3", "processed-set-shared@(*Parser).getIncludes", in.Pos(), passed, "the recursion must share one processed set")
		}
	}
	c08IncludeGraph(c)
	ruleP5(c)
	ruleP6(c)
	ruleP7(c)
	ruleP8(c)
	ruleP9(c)
	ruleP10(c)
	ruleP11(c)
	ruleP12(c)
	ruleP13(c)
	// information: explicit panics in package syntax outside the parse stage
	nPanic := 0
	for _, fn := range p.FuncsOf(pkgSyntax) {
		an.Instrs(fn, func(in ssa.Instruction) {
			if _, ok := in.(*ssa.Panic); ok {
				nPanic++
			}
		})
	}
	c.Note("explicit panic sites in package syntax: %d (lexer/grammar ones are covered by the barrier; compile-phase ones are not decided)", nPanic)
}

// isRecoverBarrier: the deferred closure calls recover() and, when the result
// is non-nil, stores a non-zero constant into a variable of the enclosing
// function that is returned as an int result.
func isRecoverBarrier(caller *ssa.Function, d *ssa.Defer) (bool, string) {
	mc, ok := d.Call.Value.(*ssa.MakeClosure)
	if !ok {
		return false, "deferred value is not a closure"
	}
	fn, _ := mc.Fn.(*ssa.Function)
	if fn == nil {
		return false, "no closure body"
	}
	var rec *ssa.Call
	an.Instrs(fn, func(in ssa.Instruction) {
		if cl, ok := in.(*ssa.Call); ok {
			if b, isB := cl.Call.Value.(*ssa.Builtin); isB && b.Name() == "recover" {
				rec = cl
			}
		}
	})
	if rec == nil {
		return false, "the deferred closure does not call recover()"
	}
	// the handler must absorb every recovered value: it must not panic again (directly or by
	// calling another function of the module that panics unconditionally is not examined)
	rePanics := false
	an.Instrs(fn, func(in ssa.Instruction) {
		if _, ok := in.(*ssa.Panic); ok {
			rePanics = true
		}
	})
	if rePanics {
		return false, "the deferred recover handler panics again for some recovered values: those panics still crash the process"
	}
	// stores of a non-zero int constant to a free variable, guarded by recover() != nil
	okStore := false
	an.Instrs(fn, func(in ssa.Instruction) {
		st, isSt := in.(*ssa.Store)
		if !isSt {
			return
		}
		fv, isFV := st.Addr.(*ssa.FreeVar)
		if !isFV {
			return
		}
		cv, isC := an.ConstVal(st.Val)
		if !isC || cv.String() == "0" {
			return
		}
		g, _ := an.GuardedBy(st, func(r an.Rel) bool { return r.Op == token.NEQ && r.X == ssa.Value(rec) && an.IsNil(r.Y) })
		if !g {
			return
		}
		// the free variable is bound to a result cell of the caller that is returned
		for i, b := range mc.Bindings {
			if fn.FreeVars[i] != fv {
				continue
			}
			cell, isAlloc := b.(*ssa.Alloc)
			if !isAlloc {
				continue
			}
			returned := false
			an.Instrs(caller, func(x ssa.Instruction) {
				if r, ok := x.(*ssa.Return); ok {
					for _, res := range r.Results {
						if u, ok := res.(*ssa.UnOp); ok && u.X == ssa.Value(cell) {
							returned = true
						}
					}
				}
			})
			if returned {
				okStore = true
			}
		}
	})
	if !okStore {
		return false, "on a recovered panic the function's result is not set to a failure value"
	}
	return true, ""
}

// P3 (include graph): several functions walk SourceFile.IncludedFrom recursively without a visited
// set (cycle check, error location printing).  They terminate only if the includer graph is acyclic.
// An edge added to a file that already exists in the graph (not a freshly allocated SourceFile) must
// therefore be added only on the path where the cycle check returned no error - or every walker must
// guard its recursion with a visited set.
func c08IncludeGraph(c *an.Ctx) {
	p := c.P
	incFrom := p.Field(pkgSyntax, "SourceFile", "IncludedFrom")
	if incFrom == nil {
		c.Undecided("P3", "anchor(SourceFile.IncludedFrom)", token.NoPos, "field not found")
		return
	}
	fns := p.FuncsOf(pkgSyntax)
	walkers := map[*ssa.Function]bool{}
	for _, fn := range fns {
		if len(callsTo(fn, fn)) == 0 {
			continue
		}
		loads := false
		an.Instrs(fn, func(in ssa.Instruction) {
			if fa, ok := in.(*ssa.FieldAddr); ok {
				if _, f := an.FieldOfAddr(fa); f == incFrom {
					loads = true
				}
			}
		})
		if loads {
			walkers[fn] = true
		}
	}
	var wn []string
	for w := range walkers {
		wn = append(wn, an.FnName(w))
	}
	sort.Strings(wn)
	c.Note("recursive walkers over SourceFile.IncludedFrom: %v", wn)
	c.Floor("P3", "recursive walkers over SourceFile.IncludedFrom", len(walkers), 1)
	// does every walker carry a visited set?
	allVisited := len(walkers) > 0
	for w := range walkers {
		for _, s := range callsTo(w, w) {
			g, _ := an.GuardedBy(s.(ssa.Instruction), func(r an.Rel) bool {
				var hasLookup func(v ssa.Value, d int) bool
				hasLookup = func(v ssa.Value, d int) bool {
					if v == nil || d > 4 {
						return false
					}
					switch x := v.(type) {
					case *ssa.Lookup:
						_, isMap := x.X.Type().Underlying().(*types.Map)
						return isMap
					case *ssa.Extract:
						return hasLookup(x.Tuple, d+1)
					case *ssa.UnOp:
						return hasLookup(x.X, d+1)
					}
					return false
				}
				return hasLookup(r.X, 0) || hasLookup(r.Y, 0)
			})
			if !g {
				allVisited = false
			}
		}
	}
	n := 0
	for _, fn := range fns {
		for _, st := range an.StoresToField(fn, incFrom) {
			if st.Parent() != fn {
				continue
			}
			base, _ := an.FieldOfAddr(st.Addr)
			if al, ok := an.Strip(base).(*ssa.Alloc); ok && al.Heap {
				c.Pass("P3", "include-edge(new file)@"+an.FnName(fn), st.Pos(), "a freshly created source file has no includers yet: the edge cannot close a cycle")
				n++
				continue
			}
			n++
			g, w := an.GuardedBy(st, func(r an.Rel) bool {
				if r.Op != token.EQL || !an.IsNil(r.Y) {
					return false
				}
				call, ok := r.X.(*ssa.Call)
				if !ok {
					return false
				}
				f := call.Call.StaticCallee()
				return f != nil && walkers[f]
			})
			c.Check("P3", "include-edge(existing file)-only-if-acyclic@"+an.FnName(fn), st.Pos(), g || allVisited,
				fmt.Sprintf("an includer edge is added to a file that is already part of the include graph; the walkers %v recurse over these edges without a visited set, so the edge may be added only where the cycle check returned nil (otherwise a cyclic @include makes them recurse forever: stack overflow / endless error text); %s", wn, c.WitnessString(w)))
		}
	}
	c.Floor("P3", "stores to SourceFile.IncludedFrom", n, 1)
}
