// Package an holds the analysis core shared by all property rules: loading
// /repo's current working tree, SSA construction, call graph, symbol lookup.
package an

import (
	"fmt"
	"go/ast"
	"go/token"
	"go/types"
	"os"
	"sort"
	"strings"
	"sync"

	"golang.org/x/tools/go/callgraph"
	"golang.org/x/tools/go/callgraph/cha"
	"golang.org/x/tools/go/callgraph/vta"
	"golang.org/x/tools/go/packages"
	"golang.org/x/tools/go/ssa"
	"golang.org/x/tools/go/ssa/ssautil"
)

const ModPath = "github.com/martian-lang/martian/"

// Prog is the loaded, type-checked and SSA-converted program.
type Prog struct {
	Repo    string
	Fset    *token.FileSet
	Pkgs    []*packages.Package // all packages of the main module (roots)
	ByPath  map[string]*packages.Package
	SSA     *ssa.Program
	SSAPkg  map[string]*ssa.Package
	AllFns  map[*ssa.Function]bool
	cgOnce  sync.Once
	cg      *callgraph.Graph
	Overlay map[string][]byte

	fileOf map[*token.File]*ast.File
}

// Load loads patterns (default ./...) from repo with the given overlay.
func Load(repo string, overlay map[string][]byte, extraEnv ...string) (*Prog, error) {
	env := []string{}
	for _, e := range os.Environ() {
		if strings.HasPrefix(e, "GOWORK=") || strings.HasPrefix(e, "GOFLAGS=") ||
			strings.HasPrefix(e, "GOPROXY=") || strings.HasPrefix(e, "GOSUMDB=") ||
			strings.HasPrefix(e, "GOTOOLCHAIN=") {
			continue
		}
		env = append(env, e)
	}
	env = append(env, "GOWORK=off", "GOFLAGS=-mod=mod", "GOPROXY=off", "GOSUMDB=off", "GOTOOLCHAIN=local")
	env = append(env, extraEnv...)
	cfg := &packages.Config{
		Mode:    packages.LoadAllSyntax,
		Dir:     repo,
		Env:     env,
		Tests:   false,
		Overlay: overlay,
	}
	pkgs, err := packages.Load(cfg, "./...")
	if err != nil {
		return nil, fmt.Errorf("packages.Load: %w", err)
	}
	if len(pkgs) == 0 {
		return nil, fmt.Errorf("no packages loaded from %s", repo)
	}
	var errs []string
	packages.Visit(pkgs, nil, func(p *packages.Package) {
		for _, e := range p.Errors {
			errs = append(errs, e.Error())
		}
	})
	if len(errs) > 0 {
		sort.Strings(errs)
		if len(errs) > 10 {
			errs = errs[:10]
		}
		return nil, fmt.Errorf("load/type-check errors: %s", strings.Join(errs, "; "))
	}
	p := &Prog{Repo: repo, Pkgs: pkgs, ByPath: map[string]*packages.Package{},
		SSAPkg: map[string]*ssa.Package{}, Overlay: overlay,
		fileOf: map[*token.File]*ast.File{}}
	p.Fset = pkgs[0].Fset
	prog, _ := ssautil.AllPackages(pkgs, ssa.InstantiateGenerics)
	prog.Build()
	p.SSA = prog
	for _, pk := range pkgs {
		p.ByPath[pk.PkgPath] = pk
		if sp := prog.Package(pk.Types); sp != nil {
			p.SSAPkg[pk.PkgPath] = sp
		}
		for _, f := range pk.Syntax {
			p.fileOf[p.Fset.File(f.Pos())] = f
		}
	}
	p.AllFns = ssautil.AllFunctions(prog)
	return p, nil
}

// CG returns the VTA call graph (built on first use).
func (p *Prog) CG() *callgraph.Graph {
	p.cgOnce.Do(func() {
		p.cg = vta.CallGraph(p.AllFns, cha.CallGraph(p.SSA))
	})
	return p.cg
}

// Pkg returns the package whose path is ModPath+suffix.
func (p *Prog) Pkg(suffix string) *packages.Package {
	return p.ByPath[ModPath+suffix]
}

// SPkg returns the SSA package for ModPath+suffix.
func (p *Prog) SPkg(suffix string) *ssa.Package {
	return p.SSAPkg[ModPath+suffix]
}

// Pos renders a position relative to the repo.
func (p *Prog) Pos(pos token.Pos) string {
	if !pos.IsValid() {
		return "-"
	}
	ps := p.Fset.Position(pos)
	f := strings.TrimPrefix(ps.Filename, p.Repo+"/")
	return fmt.Sprintf("%s:%d", f, ps.Line)
}

// FileAST returns the syntax file containing pos.
func (p *Prog) FileAST(pos token.Pos) *ast.File {
	return p.fileOf[p.Fset.File(pos)]
}

// Func finds a function or method: name is "Name", "(*T).Name" or "(T).Name" / "T.Name".
func (p *Prog) Func(pkgSuffix, name string) *ssa.Function {
	sp := p.SPkg(pkgSuffix)
	if sp == nil {
		return nil
	}
	if !strings.Contains(name, ".") {
		return sp.Func(name)
	}
	ptr := false
	n := name
	if strings.HasPrefix(n, "(*") {
		ptr = true
		n = strings.TrimPrefix(n, "(*")
		n = strings.Replace(n, ")", "", 1)
	} else if strings.HasPrefix(n, "(") {
		n = strings.TrimPrefix(n, "(")
		n = strings.Replace(n, ")", "", 1)
	}
	parts := strings.SplitN(n, ".", 2)
	tn, _ := sp.Pkg.Scope().Lookup(parts[0]).(*types.TypeName)
	if tn == nil {
		return nil
	}
	var T types.Type = tn.Type()
	_ = ptr
	// Look in pointer method set, which includes value methods.
	ms := p.SSA.MethodSets.MethodSet(types.NewPointer(T))
	for i := 0; i < ms.Len(); i++ {
		sel := ms.At(i)
		if sel.Obj().Name() == parts[1] {
			fn := p.SSA.MethodValue(sel)
			// unwrap pointer-receiver wrappers for value methods
			if fn != nil && fn.Synthetic != "" {
				ms2 := p.SSA.MethodSets.MethodSet(T)
				for j := 0; j < ms2.Len(); j++ {
					if ms2.At(j).Obj().Name() == parts[1] {
						return p.SSA.MethodValue(ms2.At(j))
					}
				}
				// embedded promoted method: return declared function
				if f, ok := sel.Obj().(*types.Func); ok {
					return p.SSA.FuncValue(f)
				}
			}
			return fn
		}
	}
	return nil
}

// Named returns the named type pkg.T.
func (p *Prog) Named(pkgSuffix, name string) *types.Named {
	pk := p.Pkg(pkgSuffix)
	if pk == nil {
		return nil
	}
	tn, _ := pk.Types.Scope().Lookup(name).(*types.TypeName)
	if tn == nil {
		return nil
	}
	n, _ := tn.Type().(*types.Named)
	return n
}

// Field returns the field object T.f.
func (p *Prog) Field(pkgSuffix, typ, field string) *types.Var {
	n := p.Named(pkgSuffix, typ)
	if n == nil {
		return nil
	}
	st, _ := n.Underlying().(*types.Struct)
	if st == nil {
		return nil
	}
	for i := 0; i < st.NumFields(); i++ {
		if st.Field(i).Name() == field {
			return st.Field(i)
		}
	}
	return nil
}

// Const returns the constant object pkg.name.
func (p *Prog) Const(pkgSuffix, name string) *types.Const {
	pk := p.Pkg(pkgSuffix)
	if pk == nil {
		return nil
	}
	c, _ := pk.Types.Scope().Lookup(name).(*types.Const)
	return c
}

// Global returns the package-level variable.
func (p *Prog) Global(pkgSuffix, name string) *ssa.Global {
	sp := p.SPkg(pkgSuffix)
	if sp == nil {
		return nil
	}
	g, _ := sp.Members[name].(*ssa.Global)
	return g
}

// FuncsOf returns all source functions (incl. methods and anonymous functions)
// that belong to package pkgSuffix, sorted by position.
func (p *Prog) FuncsOf(pkgSuffix string) []*ssa.Function {
	sp := p.SPkg(pkgSuffix)
	var out []*ssa.Function
	for fn := range p.AllFns {
		if fn.Pkg == sp && fn.Synthetic == "" && fn.Blocks != nil {
			out = append(out, fn)
		} else if fn.Pkg == nil && fn.Synthetic == "" && fn.Blocks != nil && fn.Origin() != nil && fn.Origin().Pkg == sp {
			// generic instantiation
			out = append(out, fn)
		}
	}
	sort.Slice(out, func(i, j int) bool {
		if out[i].Pos() != out[j].Pos() {
			return out[i].Pos() < out[j].Pos()
		}
		return out[i].String() < out[j].String()
	})
	return out
}

// WithAnon returns fn and all functions lexically nested in it.
func WithAnon(fn *ssa.Function) []*ssa.Function {
	out := []*ssa.Function{fn}
	for _, a := range fn.AnonFuncs {
		out = append(out, WithAnon(a)...)
	}
	return out
}

// Outermost returns the enclosing declared function of a (possibly anonymous) function.
func Outermost(fn *ssa.Function) *ssa.Function {
	for fn.Parent() != nil {
		fn = fn.Parent()
	}
	return fn
}

// FnName is a stable, human readable name: "(*Fork).doSplit", "(*Fork).doSplit$1".
func FnName(fn *ssa.Function) string {
	if fn == nil {
		return "<nil>"
	}
	if fn.Package() == nil {
		if o := fn.Origin(); o != nil && o.Package() != nil {
			return fn.RelString(o.Package().Pkg)
		}
		return fn.String()
	}
	return fn.RelString(fn.Package().Pkg)
}

// QName includes the package's last path element: core.(*Fork).doSplit
func QName(fn *ssa.Function) string {
	if fn == nil {
		return "<nil>"
	}
	pk := fn.Package()
	if pk == nil {
		if o := fn.Origin(); o != nil && o.Package() != nil {
			pk = o.Package()
		} else {
			return fn.String()
		}
	}
	path := strings.TrimPrefix(pk.Pkg.Path(), ModPath)
	return path + ":" + fn.RelString(pk.Pkg)
}
