package an

import (
	"go/token"
	"go/types"
	"strings"

	"golang.org/x/tools/go/ssa"
)

// ---------------------------------------------------------------------------
// E6 relation operand symmetry.
// In a binary relation `func (r T) Rel(o T, ...)` every pairing site
// (comparison or call of another relation) must pair something derived from
// r with the corresponding thing derived from o.
// ---------------------------------------------------------------------------

type Class int

const (
	ClassNone Class = 0
	ClassR    Class = 1
	ClassO    Class = 2
	ClassBoth Class = 3
)

func (c Class) String() string {
	return [...]string{"neither", "receiver-side", "argument-side", "both"}[c]
}

type Relation struct {
	Fn   *ssa.Function
	tr   *Taint
	to   *Taint
	RSet []ssa.Value
	OSet []ssa.Value
}

func isRefLike(t types.Type) bool {
	switch t.Underlying().(type) {
	case *types.Pointer, *types.Interface, *types.Map, *types.Slice, *types.Struct:
		return true
	}
	return false
}

// NewRelation groups the parameters: receiver (or first parameter) and every
// second following reference-typed parameter are receiver-side; the others
// argument-side.
func NewRelation(fn *ssa.Function) *Relation {
	return NewRelationOpt(fn, nil, nil)
}

// NewRelationOpt: neutral reports parameters that belong to neither side
// (lookup tables); resultFrom restricts call result provenance.
func NewRelationOpt(fn *ssa.Function, neutral func(*ssa.Parameter) bool, resultFrom func(c *ssa.Call) []ssa.Value) *Relation {
	rel := &Relation{Fn: fn}
	var refs []ssa.Value
	for _, p := range fn.Params {
		if neutral != nil && neutral(p) {
			continue
		}
		if isRefLike(p.Type()) {
			refs = append(refs, p)
		}
	}
	for i, p := range refs {
		if i%2 == 0 {
			rel.RSet = append(rel.RSet, p)
		} else {
			rel.OSet = append(rel.OSet, p)
		}
	}
	rel.tr = NewTaint(0, nil)
	rel.tr.NoKeyFlow = true
	rel.tr.ResultFrom = resultFrom
	for _, v := range rel.RSet {
		rel.tr.Add(v)
	}
	rel.tr.Run()
	rel.to = NewTaint(0, nil)
	rel.to.NoKeyFlow = true
	rel.to.ResultFrom = resultFrom
	for _, v := range rel.OSet {
		rel.to.Add(v)
	}
	rel.to.Run()
	return rel
}

func (r *Relation) ClassOf(v ssa.Value) Class {
	c := ClassNone
	if r.tr.Has(v) {
		c |= ClassR
	}
	if r.to.Has(v) {
		c |= ClassO
	}
	return c
}

// LastSeg names the final accessor of a value: field name, nullary method
// name, "len:" + ..., element markers.  "" when unknown.
func LastSeg(v ssa.Value) string {
	for i := 0; i < 16; i++ {
		switch x := v.(type) {
		case *ssa.ChangeType:
			v = x.X
			continue
		case *ssa.Convert:
			v = x.X
			continue
		case *ssa.MakeInterface:
			v = x.X
			continue
		case *ssa.ChangeInterface:
			v = x.X
			continue
		case *ssa.UnOp:
			if x.Op == token.MUL {
				if fa, ok := x.X.(*ssa.FieldAddr); ok {
					_, f := FieldOfAddr(fa)
					return normSeg(f.Name())
				}
				if ia, ok := x.X.(*ssa.IndexAddr); ok {
					return elemSeg(LastSeg(ia.X), "[]")
				}
				v = x.X
				continue
			}
			return ""
		case *ssa.Field:
			_, f := FieldLoad(x)
			return normSeg(f.Name())
		case *ssa.Lookup:
			return elemSeg(LastSeg(x.X), "[]")
		case *ssa.Index:
			return elemSeg(LastSeg(x.X), "[]")
		case *ssa.Extract:
			switch t := x.Tuple.(type) {
			case *ssa.TypeAssert:
				v = t.X
				continue
			case *ssa.Lookup:
				if x.Index == 0 {
					return elemSeg(LastSeg(t.X), "[]")
				}
				return ""
			case *ssa.Next:
				if rg, ok := t.Iter.(*ssa.Range); ok {
					if x.Index == 2 {
						return elemSeg(LastSeg(rg.X), "[]")
					}
					if x.Index == 1 {
						return elemSeg(LastSeg(rg.X), "[key]")
					}
				}
				return ""
			}
			return ""
		case *ssa.TypeAssert:
			v = x.X
			continue
		case *ssa.Call:
			if b, ok := x.Call.Value.(*ssa.Builtin); ok {
				if b.Name() == "len" && len(x.Call.Args) == 1 {
					return "len:" + LastSeg(x.Call.Args[0])
				}
				return ""
			}
			if x.Call.IsInvoke() && len(x.Call.Args) == 0 {
				return x.Call.Method.Name() + "()"
			}
			if f := x.Call.StaticCallee(); f != nil && f.Signature.Recv() != nil && len(x.Call.Args) == 1 {
				return f.Name() + "()"
			}
			return ""
		case *ssa.Parameter:
			return "·"
		case *ssa.Phi:
			// all edges agree?
			seg := ""
			for _, e := range x.Edges {
				if e == ssa.Value(x) {
					continue
				}
				s := LastSeg(e)
				if seg == "" {
					seg = s
				} else if s != seg {
					return ""
				}
			}
			return seg
		}
		return ""
	}
	return ""
}

func elemSeg(base, suffix string) string {
	if base == "" {
		return ""
	}
	return base + suffix
}

// normSeg: Table and List are two indexes of the same ordered collection.
func normSeg(s string) string {
	if s == "Table" {
		return "List"
	}
	return s
}

// PairSite is one comparison / relation call.
type PairSite struct {
	Instr  ssa.Instruction
	X, Y   ssa.Value
	CX, CY Class
	SX, SY string
	What   string
}

// PairSites lists comparisons (== != < <= > >=) between two non-constant
// values and calls of functions/methods named in relNames with (recv, arg0)
// or (arg0, arg1).
func (r *Relation) PairSites(relNames map[string]bool) []PairSite {
	var out []PairSite
	Instrs(r.Fn, func(in ssa.Instruction) {
		switch x := in.(type) {
		case *ssa.BinOp:
			switch x.Op {
			case token.EQL, token.NEQ, token.LSS, token.LEQ, token.GTR, token.GEQ:
			default:
				return
			}
			if _, c := Strip(x.X).(*ssa.Const); c {
				return
			}
			if _, c := Strip(x.Y).(*ssa.Const); c {
				return
			}
			out = append(out, PairSite{Instr: in, X: x.X, Y: x.Y, What: x.Op.String()})
		case *ssa.Call:
			var name string
			var a, b ssa.Value
			if x.Call.IsInvoke() {
				name = x.Call.Method.Name()
				if len(x.Call.Args) >= 1 {
					a, b = x.Call.Value, x.Call.Args[0]
				}
			} else if f := x.Call.StaticCallee(); f != nil {
				name = f.Name()
				if len(x.Call.Args) >= 2 {
					a, b = x.Call.Args[0], x.Call.Args[1]
				}
			}
			if !relNames[name] || a == nil {
				return
			}
			out = append(out, PairSite{Instr: in, X: a, Y: b, What: name})
		}
	})
	for i := range out {
		out[i].CX, out[i].CY = r.ClassOf(out[i].X), r.ClassOf(out[i].Y)
		out[i].SX, out[i].SY = LastSeg(out[i].X), LastSeg(out[i].Y)
	}
	return out
}

// ReadsField reports whether field f is read from a base of class c.
func (r *Relation) ReadsField(f *types.Var, c Class) bool {
	found := false
	Instrs(r.Fn, func(in ssa.Instruction) {
		var base ssa.Value
		switch x := in.(type) {
		case *ssa.FieldAddr:
			if _, g := FieldOfAddr(x); g == f {
				base = x.X
			}
		case *ssa.Field:
			if _, g := FieldLoad(x); g == f {
				base = x.X
			}
		}
		if base != nil && r.ClassOf(base)&c != 0 {
			found = true
		}
	})
	return found
}

// CallsMethod reports whether a nullary method named name is invoked on a receiver of class c.
func (r *Relation) CallsMethod(name string, c Class) bool {
	found := false
	Instrs(r.Fn, func(in ssa.Instruction) {
		call, ok := in.(*ssa.Call)
		if !ok {
			return
		}
		var recv ssa.Value
		if call.Call.IsInvoke() && call.Call.Method.Name() == name {
			recv = call.Call.Value
		} else if f := call.Call.StaticCallee(); f != nil && f.Name() == name && f.Signature.Recv() != nil && len(call.Call.Args) > 0 {
			recv = call.Call.Args[0]
		}
		if recv != nil && r.ClassOf(recv)&c != 0 {
			found = true
		}
	})
	return found
}

var _ = strings.TrimSpace
