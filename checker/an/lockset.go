package an

import (
	"go/token"
	"go/types"
	"sort"
	"strings"

	"golang.org/x/tools/go/callgraph"
	"golang.org/x/tools/go/ssa"
)

// ---------------------------------------------------------------------------
// E4 lockset: which mutexes (identified by the access path of the mutex
// value, e.g. "self.mu") are held on every path to an instruction.
// ---------------------------------------------------------------------------

type lockset map[string]bool

func (l lockset) clone() lockset {
	o := lockset{}
	for k := range l {
		o[k] = true
	}
	return o
}

func intersect(a, b lockset) lockset {
	o := lockset{}
	for k := range a {
		if b[k] {
			o[k] = true
		}
	}
	return o
}

func (l lockset) equal(o lockset) bool {
	if len(l) != len(o) {
		return false
	}
	for k := range l {
		if !o[k] {
			return false
		}
	}
	return true
}

// LockOp classifies a call as lock/unlock of a sync.Mutex / sync.RWMutex and
// returns the canonical path of the mutex ("self.mu").
func LockOp(in ssa.Instruction) (path string, acquire bool, ok bool) {
	c, isCall := in.(*ssa.Call)
	if !isCall {
		return "", false, false
	}
	f := c.Call.StaticCallee()
	if f == nil || f.Signature.Recv() == nil || f.Pkg == nil || f.Pkg.Pkg.Path() != "sync" {
		return "", false, false
	}
	rt := f.Signature.Recv().Type()
	if p, isPtr := rt.(*types.Pointer); isPtr {
		rt = p.Elem()
	}
	n, _ := rt.(*types.Named)
	if n == nil || (n.Obj().Name() != "Mutex" && n.Obj().Name() != "RWMutex") {
		return "", false, false
	}
	if len(c.Call.Args) == 0 {
		return "", false, false
	}
	p := strings.TrimPrefix(Path(c.Call.Args[0]), "&")
	switch f.Name() {
	case "Lock", "RLock":
		return p, true, true
	case "Unlock", "RUnlock":
		return p, false, true
	}
	return "", false, false
}

// Locksets computes, for every instruction of fn, the set of mutex paths
// held just before it executes (must-analysis; deferred unlocks are ignored
// because they only run at function exit).
type Locksets struct {
	fn *ssa.Function
	in map[*ssa.BasicBlock]lockset
}

func ComputeLocksets(fn *ssa.Function) *Locksets {
	ls := &Locksets{fn: fn, in: map[*ssa.BasicBlock]lockset{}}
	if len(fn.Blocks) == 0 {
		return ls
	}
	// universe: all lock paths mentioned
	univ := lockset{}
	for _, b := range fn.Blocks {
		for _, in := range b.Instrs {
			if p, _, ok := LockOp(in); ok {
				univ[p] = true
			}
		}
	}
	for i, b := range fn.Blocks {
		if i == 0 {
			ls.in[b] = lockset{}
		} else {
			ls.in[b] = univ.clone()
		}
	}
	changed := true
	for changed {
		changed = false
		for i, b := range fn.Blocks {
			if i != 0 {
				var cur lockset
				for _, p := range b.Preds {
					out := ls.out(p)
					if cur == nil {
						cur = out
					} else {
						cur = intersect(cur, out)
					}
				}
				if cur == nil {
					cur = lockset{}
				}
				if !cur.equal(ls.in[b]) {
					ls.in[b] = cur
					changed = true
				}
			}
		}
	}
	return ls
}

func (ls *Locksets) out(b *ssa.BasicBlock) lockset {
	cur := ls.in[b].clone()
	for _, in := range b.Instrs {
		if p, acq, ok := LockOp(in); ok {
			if acq {
				cur[p] = true
			} else {
				delete(cur, p)
			}
		}
	}
	return cur
}

// HeldAt returns the locks held just before instruction at.
func (ls *Locksets) HeldAt(at ssa.Instruction) lockset {
	b := at.Block()
	cur := ls.in[b].clone()
	for _, in := range b.Instrs {
		if in == at {
			break
		}
		if p, acq, ok := LockOp(in); ok {
			if acq {
				cur[p] = true
			} else {
				delete(cur, p)
			}
		}
	}
	return cur
}

// LockChecker decides "field f of object o is only accessed while o.<mutex> is held".
type LockChecker struct {
	P        *Prog
	Mutex    *types.Var // the mutex field (same struct as the guarded fields)
	cache    map[*ssa.Function]*Locksets
	heldMemo map[string]int // fn+path -> 0 unknown(in progress) 1 true 2 false
	CG       *callgraph.Graph
}

func NewLockChecker(p *Prog, mutex *types.Var) *LockChecker {
	return &LockChecker{P: p, Mutex: mutex, cache: map[*ssa.Function]*Locksets{}, heldMemo: map[string]int{}, CG: p.CG()}
}

func (lc *LockChecker) ls(fn *ssa.Function) *Locksets {
	if l, ok := lc.cache[fn]; ok {
		return l
	}
	l := ComputeLocksets(fn)
	lc.cache[fn] = l
	return l
}

// AccessResult describes one access and how it was justified.
type AccessResult struct {
	Instr  ssa.Instruction
	Fn     *ssa.Function
	Write  bool
	OK     bool
	Reason string
}

// isFresh reports whether base is an object allocated in this function
// (constructor phase: not yet shared).
func isFresh(base ssa.Value) bool {
	// walk through address arithmetic only (no loads): &x.f, &x[i]
	for i := 0; i < 16; i++ {
		switch x := base.(type) {
		case *ssa.FieldAddr:
			base = x.X
			continue
		case *ssa.IndexAddr:
			base = x.X
			continue
		case *ssa.Alloc:
			// the allocated object itself must be the struct (not a cell holding a pointer)
			return true
		case *ssa.Call:
			if b, ok := x.Call.Value.(*ssa.Builtin); ok && b.Name() == "new" {
				return true
			}
			return false
		case *ssa.UnOp:
			// a load of a local variable that only ever holds a fresh allocation (x := &T{}; captured)
			if x.Op == token.MUL {
				if cell, ok := x.X.(*ssa.Alloc); ok {
					fresh, n := true, 0
					for _, r := range Referrers(cell) {
						if st, ok := r.(*ssa.Store); ok && st.Addr == ssa.Value(cell) {
							n++
							if _, isAlloc := st.Val.(*ssa.Alloc); !isAlloc {
								fresh = false
							}
						}
					}
					return fresh && n > 0
				}
			}
			return false
		default:
			return false
		}
	}
	return false
}

// isWriteAccess: a FieldAddr is a write if any referrer stores through it,
// passes it to a map update/delete/append-assign, or takes its address into a call.
func isWriteAccess(in ssa.Instruction) bool {
	fa, ok := in.(*ssa.FieldAddr)
	if !ok {
		return false
	}
	for _, r := range Referrers(fa) {
		switch x := r.(type) {
		case *ssa.Store:
			if x.Addr == fa {
				return true
			}
		case *ssa.UnOp:
			// load; writes through map values are MapUpdate on the loaded map
			for _, r2 := range Referrers(x) {
				switch y := r2.(type) {
				case *ssa.MapUpdate:
					if y.Map == x {
						return true
					}
				case *ssa.Call:
					if b, ok := y.Call.Value.(*ssa.Builtin); ok && b.Name() == "delete" && len(y.Call.Args) > 0 && y.Call.Args[0] == x {
						return true
					}
				}
			}
		}
	}
	return false
}

// CheckField enumerates all accesses of field f in the given functions and
// decides each one.
func (lc *LockChecker) CheckField(fns []*ssa.Function, f *types.Var) []AccessResult {
	var out []AccessResult
	for _, fn := range fns {
		for _, in := range FieldAccesses(fn, f) {
			var base ssa.Value
			switch x := in.(type) {
			case *ssa.FieldAddr:
				base = x.X
			case *ssa.Field:
				base = x.X
			}
			res := AccessResult{Instr: in, Fn: fn, Write: isWriteAccess(in)}
			if isFresh(base) {
				res.OK, res.Reason = true, "object allocated in this function (not yet shared)"
				out = append(out, res)
				continue
			}
			basePath := Path(base)
			ok, why := lc.heldAt(fn, in, basePath, map[string]bool{})
			res.OK, res.Reason = ok, why
			out = append(out, res)
		}
	}
	sort.SliceStable(out, func(i, j int) bool { return out[i].Instr.Pos() < out[j].Instr.Pos() })
	return out
}

// heldAt: is basePath.<mutex> held at instruction `at` of fn, either locally
// or because every caller holds it at every call site?
func (lc *LockChecker) heldAt(fn *ssa.Function, at ssa.Instruction, basePath string, visiting map[string]bool) (bool, string) {
	want := basePath + "." + lc.Mutex.Name()
	if lc.ls(fn).HeldAt(at)[want] {
		return true, "holds " + want + " locally"
	}
	if len(visiting) > 8 {
		return false, "lock " + want + " not held within 8 call levels"
	}
	// memo on (function, object path): the caller-summary answer does not depend on `at`
	mkey := fn.String() + "|" + basePath
	switch lc.heldMemo[mkey] {
	case 1:
		return true, "all callers hold the lock (memo)"
	case 2:
		return false, "lock " + want + " not held by some caller (memo)"
	}
	ok, why := lc.heldByCallers(fn, at, basePath, want, visiting)
	if ok {
		lc.heldMemo[mkey] = 1
	} else if !strings.Contains(why, "recursive") {
		lc.heldMemo[mkey] = 2
	}
	return ok, why
}

func (lc *LockChecker) heldByCallers(fn *ssa.Function, at ssa.Instruction, basePath, want string, visiting map[string]bool) (bool, string) {
	// Caller summary: basePath must be rooted at a parameter (or receiver) or a
	// free variable of fn; translate to the caller's path.
	root, rest := splitRoot(basePath)
	pi := -1
	for i, p := range fn.Params {
		if p.Name() == root {
			pi = i
		}
	}
	fvi := -1
	for i, fv := range fn.FreeVars {
		if fv.Name() == root {
			fvi = i
		}
	}
	if pi < 0 && fvi < 0 {
		return false, "lock " + want + " not held and object is not a parameter (cannot use caller summary)"
	}
	key := fn.String() + "|" + basePath
	if visiting[key] {
		return true, "recursive"
	}
	visiting[key] = true
	defer delete(visiting, key)

	if fvi >= 0 {
		// closure: where is it created / called?  Treat the closure as executing
		// at its call sites when it is immediately invoked or deferred in the
		// parent; when it escapes (go statement, stored), the lock is not held.
		par := fn.Parent()
		if par == nil {
			return false, "free variable without parent"
		}
		okAll := true
		n := 0
		var why string
		Instrs(par, func(in ssa.Instruction) {
			mc, ok := in.(*ssa.MakeClosure)
			if !ok || mc.Fn != fn {
				return
			}
			bound := mc.Bindings[fvi]
			bp := Path(bound)
			bp = strings.TrimPrefix(bp, "&")
			for _, r := range Referrers(mc) {
				n++
				switch x := r.(type) {
				case *ssa.Call:
					if x.Call.Value == mc {
						ok2, w := lc.heldAt(par, x, bp+rest, visiting)
						if !ok2 {
							okAll = false
							why = w
						}
						continue
					}
					okAll = false
					why = "closure passed to a call"
				case *ssa.Defer:
					// deferred closures run at exit: the lock may have been released
					okAll = false
					why = "closure deferred"
				default:
					okAll = false
					why = "closure escapes (" + r.String() + ")"
				}
			}
		})
		if n == 0 {
			return false, "closure never referenced"
		}
		if okAll {
			return true, "closure invoked while parent holds the lock"
		}
		return false, "lock " + want + " not held in closure: " + why
	}

	node := lc.CG.Nodes[fn]
	if node == nil || len(node.In) == 0 {
		return false, "lock " + want + " not held and function has no callers in the call graph"
	}
	var callers []string
	for _, e := range node.In {
		if e.Site == nil {
			return false, "synthetic caller"
		}
		site := e.Site
		cc := site.Common()
		var arg ssa.Value
		if cc.IsInvoke() {
			if pi == 0 {
				arg = cc.Value
			} else {
				arg = cc.Args[pi-1]
			}
		} else {
			if pi < len(cc.Args) {
				arg = cc.Args[pi]
			} else {
				return false, "argument mapping failed"
			}
		}
		if _, isGo := site.(*ssa.Go); isGo {
			return false, "called via go statement from " + FnName(e.Caller.Func)
		}
		if _, isDefer := site.(*ssa.Defer); isDefer {
			return false, "called via defer from " + FnName(e.Caller.Func)
		}
		ap := strings.TrimPrefix(Path(arg), "&")
		if isFresh(arg) {
			callers = append(callers, FnName(e.Caller.Func)+"(fresh)")
			continue
		}
		ok, why := lc.heldAt(e.Caller.Func, site, ap+rest, visiting)
		if !ok {
			return false, "caller " + FnName(e.Caller.Func) + ": " + why
		}
		callers = append(callers, FnName(e.Caller.Func))
	}
	sort.Strings(callers)
	return true, "all callers hold the lock: " + strings.Join(uniq(callers), ",")
}

func uniq(s []string) []string {
	var o []string
	for i, x := range s {
		if i == 0 || x != s[i-1] {
			o = append(o, x)
		}
	}
	return o
}

func splitRoot(path string) (root, rest string) {
	i := strings.IndexAny(path, ".[")
	if i < 0 {
		return path, ""
	}
	return path[:i], path[i:]
}

var _ = token.NoPos
