package an

import (
	"go/token"
	"go/types"

	"golang.org/x/tools/go/ssa"
)

// ---------------------------------------------------------------------------
// E8 forward provenance ("taint"): which values may derive from a source.
// Context-insensitive, follows static callees inside the analysed program up
// to a depth bound; containers (maps, slices, structs reached through an
// address) become tainted when something tainted is stored into them.
// ---------------------------------------------------------------------------

type Taint struct {
	Vals     map[ssa.Value]bool
	maxDepth int
	// Follow decides whether a static callee's body is analysed.
	Follow func(*ssa.Function) bool
	// CallSites (optional) lists the call sites of a function; used to carry a tainted result out of
	// a function in which the taint originated.
	CallSites func(*ssa.Function) []ssa.CallInstruction
	origin    map[*ssa.Function]bool
	work      []ssa.Value
	// stores that received a tainted value
	Sinks map[ssa.Instruction]bool
	// functions whose return value is tainted
	retTainted map[*ssa.Function]bool
	callersOf  map[*ssa.Function][]*ssa.Call
	depth      map[*ssa.Function]int
	// field-based heap abstraction
	Fields     map[*types.Var]bool
	fieldIndex map[*types.Var][]ssa.Value
	// NoKeyFlow: an index/lookup result derives from the container only, not from the key.
	NoKeyFlow bool
	// Sanitizers: calls of these functions do not propagate taint to their result.
	Sanitizers map[*ssa.Function]bool
	// ResultFrom restricts which operands of a call carry taint into its result
	// (nil result = default: all operands).
	ResultFrom func(c *ssa.Call) []ssa.Value
}

// IndexFields records every FieldAddr/Field instruction of the given
// functions so that a store into x.f taints every read of field f.
func (t *Taint) IndexFields(fns []*ssa.Function) {
	t.fieldIndex = map[*types.Var][]ssa.Value{}
	for _, fn := range fns {
		for _, g := range WithAnon(fn) {
			Instrs(g, func(in ssa.Instruction) {
				switch x := in.(type) {
				case *ssa.FieldAddr:
					if _, f := FieldOfAddr(x); f != nil {
						t.fieldIndex[f] = append(t.fieldIndex[f], x)
					}
				case *ssa.Field:
					if _, f := FieldLoad(x); f != nil {
						t.fieldIndex[f] = append(t.fieldIndex[f], x)
					}
				}
			})
		}
	}
}

func NewTaint(maxDepth int, follow func(*ssa.Function) bool) *Taint {
	return &Taint{Vals: map[ssa.Value]bool{}, maxDepth: maxDepth, Follow: follow,
		Sinks: map[ssa.Instruction]bool{}, retTainted: map[*ssa.Function]bool{},
		callersOf: map[*ssa.Function][]*ssa.Call{}, depth: map[*ssa.Function]int{}, Fields: map[*types.Var]bool{}}
}

func (t *Taint) Add(v ssa.Value) {
	if v == nil || t.Vals[v] {
		return
	}
	t.Vals[v] = true
	t.work = append(t.work, v)
}

func (t *Taint) Has(v ssa.Value) bool { return t.Vals[v] }

// AddSource is Add for an original source: the function that contains it is remembered, so that its
// result carries the taint to every call site (see CallSites).
func (t *Taint) AddSource(v ssa.Value) {
	if in, ok := v.(ssa.Instruction); ok && in.Parent() != nil {
		if t.origin == nil {
			t.origin = map[*ssa.Function]bool{}
		}
		t.origin[in.Parent()] = true
	}
	t.Add(v)
}

// taintContainer marks the object an address points into.
func (t *Taint) taintAddr(addr ssa.Value) {
	// taint the address value itself and its root container so later loads see it
	t.Add(addr)
	switch x := addr.(type) {
	case *ssa.FieldAddr:
		if _, f := FieldOfAddr(x); f != nil && !t.Fields[f] {
			t.Fields[f] = true
			for _, v := range t.fieldIndex[f] {
				t.Add(v)
			}
		}
	case *ssa.IndexAddr:
		t.Add(x.X)
		if u, ok := x.X.(*ssa.UnOp); ok && u.Op == token.MUL {
			t.taintAddr(u.X)
		}
	}
}

// Run propagates to a fix-point.
func (t *Taint) Run() {
	for len(t.work) > 0 {
		v := t.work[len(t.work)-1]
		t.work = t.work[:len(t.work)-1]
		// a tainted alloc/address taints loads through derived addresses:
		// handled because FieldAddr/IndexAddr/UnOp are value users of it.
		for _, r := range Referrers(v) {
			t.visit(v, r)
		}
		// a tainted free variable binding: MakeClosure bindings
		if fn, ok := v.(*ssa.Function); ok {
			_ = fn
		}
		// parameters have no referrers list issue; fine.
		// Globals: find loads? skipped.
	}
}

func (t *Taint) visit(v ssa.Value, r ssa.Instruction) {
	switch x := r.(type) {
	case *ssa.Store:
		if x.Val == v {
			t.Sinks[x] = true
			t.taintAddr(x.Addr)
			// loads from the same alloc elsewhere
		}
		// if the address is tainted, nothing to do
	case *ssa.MapUpdate:
		if x.Key == v || x.Value == v {
			t.Sinks[x] = true
			t.Add(x.Map)
			// a map parameter updated in place is the caller's map: the actual arguments carry the taint
			if prm, ok := x.Map.(*ssa.Parameter); ok {
				fn := prm.Parent()
				idx := -1
				for i, q := range fn.Params {
					if q == prm {
						idx = i
					}
				}
				sites := append([]*ssa.Call{}, t.callersOf[fn]...)
				if t.CallSites != nil {
					for _, c := range t.CallSites(fn) {
						if cc, ok := c.(*ssa.Call); ok {
							sites = append(sites, cc)
						}
					}
				}
				for _, c := range sites {
					if idx >= 0 && idx < len(c.Call.Args) {
						t.Add(c.Call.Args[idx])
					}
				}
			}
			// the map value came from a load of a field: taint that address too
			if u, ok := x.Map.(*ssa.UnOp); ok && u.Op == token.MUL {
				t.taintAddr(u.X)
			}
		}
	case *ssa.Send:
		if x.X == v {
			t.Add(x.Chan)
		}
	case *ssa.Call:
		t.visitCall(v, x)
	case *ssa.Defer:
		t.visitCallCommon(v, x.Common(), nil)
	case *ssa.Go:
		t.visitCallCommon(v, x.Common(), nil)
	case *ssa.Return:
		fn := x.Parent()
		if !t.retTainted[fn] {
			t.retTainted[fn] = true
			for _, c := range t.callersOf[fn] {
				t.Add(c)
			}
			// a source inside a helper: its result is tainted at every call site, also those the
			// propagation never entered through
			if t.CallSites != nil && t.origin[fn] {
				for _, c := range t.CallSites(fn) {
					if v, ok := c.(ssa.Value); ok {
						t.Add(v)
					}
				}
			}
		}
	case *ssa.MakeClosure:
		// binding tainted -> free variable tainted
		if fn, ok := x.Fn.(*ssa.Function); ok {
			for i, b := range x.Bindings {
				if b == v && i < len(fn.FreeVars) {
					t.Add(fn.FreeVars[i])
				}
			}
		}
		t.Add(x)
	case ssa.Value:
		// generic value-producing instruction using v
		if t.NoKeyFlow {
			switch y := x.(type) {
			case *ssa.Lookup:
				if y.X != v {
					return
				}
			case *ssa.Index:
				if y.X != v {
					return
				}
			case *ssa.IndexAddr:
				if y.X != v {
					return
				}
			}
		}
		switch y := x.(type) {
		case *ssa.Phi, *ssa.BinOp, *ssa.UnOp, *ssa.Field, *ssa.FieldAddr, *ssa.Index, *ssa.IndexAddr,
			*ssa.Lookup, *ssa.Extract, *ssa.Next, *ssa.Range, *ssa.TypeAssert, *ssa.Convert,
			*ssa.ChangeType, *ssa.ChangeInterface, *ssa.MakeInterface, *ssa.Slice, *ssa.SliceToArrayPointer,
			*ssa.MultiConvert:
			t.Add(y)
		}
	}
}

func (t *Taint) visitCall(v ssa.Value, c *ssa.Call) {
	t.visitCallCommon(v, c.Common(), c)
}

func (t *Taint) visitCallCommon(v ssa.Value, cc *ssa.CallCommon, call *ssa.Call) {
	// builtin append/copy: result carries taint
	if b, ok := cc.Value.(*ssa.Builtin); ok {
		switch b.Name() {
		case "append":
			if call != nil {
				t.Add(call)
			}
		case "copy":
			if len(cc.Args) == 2 && cc.Args[1] == v {
				t.Add(cc.Args[0])
			}
		}
		return
	}
	callee := cc.StaticCallee()
	if callee != nil && t.Sanitizers[callee] {
		return
	}
	if callee != nil && callee.Blocks != nil && t.Follow != nil && t.Follow(callee) {
		// map arguments to parameters
		if call != nil {
			t.callersOf[callee] = append(t.callersOf[callee], call)
			if t.retTainted[callee] {
				t.Add(call)
			}
		}
		for i, a := range cc.Args {
			if a == v && i < len(callee.Params) {
				t.Add(callee.Params[i])
			}
		}
		if cc.Value == v {
			// calling a tainted closure: nothing more
		}
		return
	}
	// unknown / external / interface call: result derives from its operands
	if call != nil {
		if t.ResultFrom != nil {
			if ops := t.ResultFrom(call); ops != nil {
				for _, o := range ops {
					if o == v {
						t.Add(call)
					}
				}
				return
			}
		}
		t.Add(call)
	}
}
