package an

import (
	"go/token"

	"golang.org/x/tools/go/ssa"
)

// ---------------------------------------------------------------------------
// Instruction-granular reachability (engines E1 and E2).
//
// A Query asks: starting at a program point, is there a path that reaches a
// Target instruction without executing a Barrier instruction and without
// crossing a Barrier edge?  "Every path from A to B passes through M" is the
// negation with Barrier=M; "site S is guarded by condition C" is the negation
// with start=function entry, Target=S and BarrierEdge=the edges on which C holds.
// ---------------------------------------------------------------------------

type Query struct {
	Fn *ssa.Function
	// Start just after this instruction; nil = function entry.
	After ssa.Instruction
	// Target instruction predicate.
	Target func(ssa.Instruction) bool
	// Barrier instruction predicate (checked before Target for the same instruction).
	Barrier func(ssa.Instruction) bool
	// Barrier edge predicate.
	BarrierEdge func(from, to *ssa.BasicBlock) bool
}

// Witness is a path of basic blocks from start to the target instruction.
type Witness struct {
	Blocks []*ssa.BasicBlock
	Hit    ssa.Instruction
}

// Find returns a witness path if some path reaches a target; nil otherwise.
func (q Query) Find() *Witness {
	fn := q.Fn
	if fn == nil || len(fn.Blocks) == 0 {
		return nil
	}
	type item struct {
		b    *ssa.BasicBlock
		from int
	}
	startB := fn.Blocks[0]
	startI := 0
	if q.After != nil {
		startB = q.After.Block()
		for i, in := range startB.Instrs {
			if in == q.After {
				startI = i + 1
				break
			}
		}
	}
	parent := map[*ssa.BasicBlock]*ssa.BasicBlock{}
	visited := map[*ssa.BasicBlock]bool{}
	// scan returns (hit, passThrough)
	scan := func(b *ssa.BasicBlock, from int) (ssa.Instruction, bool) {
		for i := from; i < len(b.Instrs); i++ {
			in := b.Instrs[i]
			if q.Barrier != nil && q.Barrier(in) {
				return nil, false
			}
			if q.Target != nil && q.Target(in) {
				return in, false
			}
		}
		return nil, true
	}
	mkWitness := func(b *ssa.BasicBlock, hit ssa.Instruction) *Witness {
		var path []*ssa.BasicBlock
		for x := b; x != nil; x = parent[x] {
			path = append([]*ssa.BasicBlock{x}, path...)
			if x == startB && parent[x] == nil {
				break
			}
		}
		return &Witness{Blocks: path, Hit: hit}
	}
	hit, through := scan(startB, startI)
	if hit != nil {
		return &Witness{Blocks: []*ssa.BasicBlock{startB}, Hit: hit}
	}
	if !through {
		return nil
	}
	// The start block may be re-entered from its top (loop) if startI>0.
	if startI == 0 {
		visited[startB] = true
	}
	work := []*ssa.BasicBlock{startB}
	first := true
	for len(work) > 0 {
		b := work[0]
		work = work[1:]
		if !first || startI == 0 {
			// already scanned on push
		}
		first = false
		for _, s := range b.Succs {
			if q.BarrierEdge != nil && q.BarrierEdge(b, s) {
				continue
			}
			if visited[s] {
				continue
			}
			visited[s] = true
			if _, ok := parent[s]; !ok && s != startB {
				parent[s] = b
			}
			hit, through := scan(s, 0)
			if hit != nil {
				if s == startB {
					// looped back to the start block
					w := mkWitness(b, hit)
					w.Blocks = append(w.Blocks, s)
					return w
				}
				return mkWitness(s, hit)
			}
			if through {
				work = append(work, s)
			}
		}
	}
	return nil
}

// IsReturn matches return instructions.
func IsReturn(in ssa.Instruction) bool {
	_, ok := in.(*ssa.Return)
	return ok
}

// IsExit matches return and panic terminators.
func IsExit(in ssa.Instruction) bool {
	switch in.(type) {
	case *ssa.Return, *ssa.Panic:
		return true
	}
	return false
}

// ---------------------------------------------------------------------------
// Branch conditions.
// ---------------------------------------------------------------------------

// EdgeCond returns the If condition controlling the edge from->to and the
// truth value the condition has on that edge.  ok is false when the edge is
// unconditional or both successors are the same block.
func EdgeCond(from, to *ssa.BasicBlock) (cond ssa.Value, truth bool, ok bool) {
	if len(from.Instrs) == 0 {
		return nil, false, false
	}
	ifi, isIf := from.Instrs[len(from.Instrs)-1].(*ssa.If)
	if !isIf || len(from.Succs) != 2 || from.Succs[0] == from.Succs[1] {
		return nil, false, false
	}
	if to == from.Succs[0] {
		return ifi.Cond, true, true
	}
	if to == from.Succs[1] {
		return ifi.Cond, false, true
	}
	return nil, false, false
}

// Rel is a normalised atomic condition: X Op Y holds (Op one of == != < <= > >=),
// or, when Op==token.ILLEGAL, the boolean value X has truth value Truth.
type Rel struct {
	Op    token.Token
	X, Y  ssa.Value
	Truth bool
	// Sub: parameters of the predicate helpers this relation was expanded from -> caller values
	Sub map[ssa.Value]ssa.Value
}

func negate(op token.Token) token.Token {
	switch op {
	case token.EQL:
		return token.NEQ
	case token.NEQ:
		return token.EQL
	case token.LSS:
		return token.GEQ
	case token.GEQ:
		return token.LSS
	case token.GTR:
		return token.LEQ
	case token.LEQ:
		return token.GTR
	}
	return token.ILLEGAL
}

// Flip swaps the operands of a relation.
func (r Rel) Flip() Rel {
	if r.Op == token.ILLEGAL {
		return r
	}
	op := r.Op
	switch op {
	case token.LSS:
		op = token.GTR
	case token.GTR:
		op = token.LSS
	case token.LEQ:
		op = token.GEQ
	case token.GEQ:
		op = token.LEQ
	}
	return Rel{Op: op, X: r.Y, Y: r.X}
}

// Normalize turns (cond, truth) into an atomic relation, looking through
// negations.
func Normalize(cond ssa.Value, truth bool) Rel {
	for {
		switch c := cond.(type) {
		case *ssa.UnOp:
			if c.Op == token.NOT {
				cond = c.X
				truth = !truth
				continue
			}
		case *ssa.BinOp:
			switch c.Op {
			case token.EQL, token.NEQ, token.LSS, token.LEQ, token.GTR, token.GEQ:
				op := c.Op
				if !truth {
					op = negate(op)
				}
				return Rel{Op: op, X: c.X, Y: c.Y}
			}
		}
		return Rel{Op: token.ILLEGAL, X: cond, Truth: truth}
	}
}

// GuardedBy reports whether every path from the entry of site's function to
// site crosses a conditional edge on which pred holds.  It returns a witness
// path that avoids all such edges when not guarded.
func GuardedBy(site ssa.Instruction, pred func(r Rel) bool) (bool, *Witness) {
	fn := site.Parent()
	w := Query{
		Fn:          fn,
		Target:      func(in ssa.Instruction) bool { return in == site },
		BarrierEdge: func(from, to *ssa.BasicBlock) bool { return EdgeHolds(from, to, pred) },
	}.Find()
	return w == nil, w
}

// MustPass reports whether every path from `after` (nil = entry) to any
// target passes through a barrier instruction.
func MustPass(fn *ssa.Function, after ssa.Instruction, target, barrier func(ssa.Instruction) bool) (bool, *Witness) {
	w := Query{Fn: fn, After: after, Target: target, Barrier: barrier}.Find()
	return w == nil, w
}

// Reachable reports whether target is reachable from `after` at all.
func Reachable(fn *ssa.Function, after ssa.Instruction, target func(ssa.Instruction) bool) bool {
	return Query{Fn: fn, After: after, Target: target}.Find() != nil
}

// Instrs iterates over every instruction of fn.
func Instrs(fn *ssa.Function, f func(ssa.Instruction)) {
	for _, b := range fn.Blocks {
		for _, in := range b.Instrs {
			f(in)
		}
	}
}

// InstrsDeep iterates over fn and all nested anonymous functions.
func InstrsDeep(fn *ssa.Function, f func(*ssa.Function, ssa.Instruction)) {
	for _, g := range WithAnon(fn) {
		for _, b := range g.Blocks {
			for _, in := range b.Instrs {
				f(g, in)
			}
		}
	}
}

// GuardedByStable is GuardedBy with invalidation: a guard established by
// crossing a pred edge is lost again when a kill instruction executes (e.g. a
// store to the tested variable).  Returns false when some path reaches site
// in the unguarded state.
func GuardedByStable(site ssa.Instruction, pred func(r Rel) bool, kill func(ssa.Instruction) bool) bool {
	fn := site.Parent()
	if fn == nil || len(fn.Blocks) == 0 {
		return false
	}
	type st struct {
		b *ssa.BasicBlock
		g bool
	}
	seen := map[st]bool{}
	work := []st{{fn.Blocks[0], false}}
	seen[work[0]] = true
	for len(work) > 0 {
		cur := work[len(work)-1]
		work = work[:len(work)-1]
		g := cur.g
		for _, in := range cur.b.Instrs {
			if in == site && !g {
				return false
			}
			if kill != nil && kill(in) {
				g = false
			}
		}
		for _, s := range cur.b.Succs {
			ng := g
			if EdgeHolds(cur.b, s, pred) {
				ng = true
			}
			n := st{s, ng}
			if !seen[n] {
				seen[n] = true
				work = append(work, n)
			}
		}
	}
	return true
}

// Callers returns the set of functions with a call-graph edge to fn.
func (p *Prog) Callers(fn *ssa.Function) map[*ssa.Function][]ssa.CallInstruction {
	out := map[*ssa.Function][]ssa.CallInstruction{}
	n := p.CG().Nodes[fn]
	if n == nil {
		return out
	}
	for _, e := range n.In {
		out[e.Caller.Func] = append(out[e.Caller.Func], e.Site)
	}
	return out
}

// MustDo reports whether every path from fn's entry to a return executes an
// instruction satisfying pred, directly or inside a statically called
// function of the program (depth-bounded, memoised; recursion counts as no).
type MustDo struct {
	Pred  func(ssa.Instruction) bool
	Depth int
	memo  map[*ssa.Function]int
}

func (m *MustDo) Fn(fn *ssa.Function) bool { return m.fn(fn, 0) }

func (m *MustDo) fn(fn *ssa.Function, d int) bool {
	if fn == nil || fn.Blocks == nil || d > m.Depth {
		return false
	}
	if m.memo == nil {
		m.memo = map[*ssa.Function]int{}
	}
	switch m.memo[fn] {
	case 1:
		return true
	case 2, 3:
		return false
	}
	m.memo[fn] = 3
	ok, _ := MustPass(fn, nil, IsReturn, func(in ssa.Instruction) bool { return m.Instr(in, d) })
	if ok {
		m.memo[fn] = 1
	} else {
		m.memo[fn] = 2
	}
	return ok
}

// Instr: the instruction satisfies pred or is a plain call of a function that must.
func (m *MustDo) Instr(in ssa.Instruction, d int) bool {
	if m.Pred(in) {
		return true
	}
	if c, ok := in.(*ssa.Call); ok {
		if f := c.Call.StaticCallee(); f != nil && f.Blocks != nil {
			return m.fn(f, d+1)
		}
	}
	return false
}

// MayDo reports whether fn (or a static callee, depth-bounded) contains an
// instruction satisfying pred.
func MayDo(fn *ssa.Function, pred func(ssa.Instruction) bool, depth int) bool {
	seen := map[*ssa.Function]bool{}
	var rec func(f *ssa.Function, d int) bool
	rec = func(f *ssa.Function, d int) bool {
		if f == nil || f.Blocks == nil || seen[f] || d > depth {
			return false
		}
		seen[f] = true
		found := false
		InstrsDeep(f, func(_ *ssa.Function, in ssa.Instruction) {
			if found {
				return
			}
			if pred(in) {
				found = true
				return
			}
			if c := AsCallAny(in); c != nil {
				if g := c.Common().StaticCallee(); g != nil && rec(g, d+1) {
					found = true
				}
			}
		})
		return found
	}
	return rec(fn, 0)
}

func AsCallAny(in ssa.Instruction) ssa.CallInstruction {
	c, _ := in.(ssa.CallInstruction)
	return c
}
