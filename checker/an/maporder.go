package an

import (
	"fmt"
	"go/token"
	"go/types"
	"os"
	"sort"
	"strings"

	"golang.org/x/tools/go/ssa"
)

// ---------------------------------------------------------------------------
// E5 iteration-order analysis: for every `range` over a map, which effects of
// the loop body can carry the (random) iteration order out of the loop?
// ---------------------------------------------------------------------------

type MapLoop struct {
	Fn     *ssa.Function
	Range  *ssa.Range
	Next   *ssa.Next
	Blocks map[*ssa.BasicBlock]bool
	// Effects that may carry order; empty => order-insensitive.
	Effects []string
	// Detail for messages.
	Notes []string
}

func (l *MapLoop) Key() string {
	return FnName(l.Fn) + "#range(" + StablePath(l.Range.X) + ")"
}

// FindMapLoops enumerates range-over-map loops of fn (not nested closures).
func FindMapLoops(fn *ssa.Function) []*MapLoop {
	var out []*MapLoop
	Instrs(fn, func(in ssa.Instruction) {
		r, ok := in.(*ssa.Range)
		if !ok {
			return
		}
		if _, isMap := r.X.Type().Underlying().(*types.Map); !isMap {
			return
		}
		for _, ref := range Referrers(r) {
			nx, ok := ref.(*ssa.Next)
			if !ok {
				continue
			}
			l := &MapLoop{Fn: fn, Range: r, Next: nx}
			l.Blocks = loopBody(nx)
			out = append(out, l)
		}
	})
	return out
}

// loopBody: blocks reachable from the ok-successor of the Next block from
// which the Next block is reachable again.
func loopBody(nx *ssa.Next) map[*ssa.BasicBlock]bool {
	hdr := nx.Block()
	var bodyEntry *ssa.BasicBlock
	for _, s := range hdr.Succs {
		if c, t, ok := EdgeCond(hdr, s); ok && t {
			if ex, isEx := c.(*ssa.Extract); isEx && ex.Tuple == ssa.Value(nx) && ex.Index == 0 {
				bodyEntry = s
			}
		}
	}
	body := map[*ssa.BasicBlock]bool{}
	if bodyEntry == nil {
		return body
	}
	// forward reach from bodyEntry (not passing through hdr)
	fwd := map[*ssa.BasicBlock]bool{}
	var f func(b *ssa.BasicBlock)
	f = func(b *ssa.BasicBlock) {
		if fwd[b] || b == hdr {
			return
		}
		fwd[b] = true
		for _, s := range b.Succs {
			f(s)
		}
	}
	f(bodyEntry)
	// blocks in fwd that can reach hdr are "in the loop"; the others are exits
	// (return/break continuation); statements that execute on an exit path and
	// are dominated by the body entry are still caused by an iteration, so we
	// keep every block dominated by the body entry.
	for b := range fwd {
		if bodyEntry.Dominates(b) {
			body[b] = true
		}
	}
	return body
}

// canReachHeader reports whether block b can reach the loop header again.
func (l *MapLoop) continues(b *ssa.BasicBlock) bool {
	hdr := l.Next.Block()
	seen := map[*ssa.BasicBlock]bool{}
	var f func(x *ssa.BasicBlock) bool
	f = func(x *ssa.BasicBlock) bool {
		if x == hdr {
			return true
		}
		if seen[x] {
			return false
		}
		seen[x] = true
		for _, s := range x.Succs {
			if f(s) {
				return true
			}
		}
		return false
	}
	return f(b)
}

// OrderSummary describes what a callee does with respect to ordering.
type OrderConfig struct {
	// Writers: callee names (methods/functions) that emit to an output stream.
	IsEmitter func(c ssa.CallInstruction) bool
	// IsSort: the call sorts its first slice argument.
	IsSort func(c ssa.CallInstruction) (ssa.Value, bool)
	// Insensitive callees: pure or order-insensitive by summary.
	Insensitive func(f *ssa.Function) bool
	// ErrorList type name check
	IsErrorList func(t types.Type) bool
	// Callees returns the possible callees of a call site (call graph).
	Callees func(c ssa.CallInstruction) []*ssa.Function
	// Universe: all functions of the program (for the effect fix-point).
	Universe []*ssa.Function
	oseMemo  map[*ssa.Function]int
}

// OSE reports whether calling f can have an effect whose result depends on
// the order of calls: emission to a non-local writer, accumulation (append)
// into non-local memory, stores to globals, goroutines/sends, or a call of
// such a function.
func (cfg *OrderConfig) OSE(f *ssa.Function) bool {
	if cfg.oseMemo == nil {
		cfg.computeOSE()
	}
	if f == nil {
		return true
	}
	if v, ok := cfg.oseMemo[f]; ok {
		return v == 1
	}
	// not part of the precomputed universe (external / synthetic): local decision
	return cfg.oseExternal(f)
}

func (cfg *OrderConfig) inModule(f *ssa.Function) bool {
	if f.Pkg != nil {
		return strings.HasPrefix(f.Pkg.Pkg.Path(), ModPath)
	}
	if f.Blocks != nil && f.Synthetic != "" {
		return true // wrapper / thunk / instantiation of module code
	}
	return false
}

func (cfg *OrderConfig) oseExternal(f *ssa.Function) bool {
	return !(cfg.Insensitive != nil && cfg.Insensitive(f))
}

// computeOSE: least fix-point of "has a local order-sensitive effect or calls
// a function that has one" over all module functions.
func (cfg *OrderConfig) computeOSE() {
	cfg.oseMemo = map[*ssa.Function]int{}
	why := map[*ssa.Function]string{}
	callees := map[*ssa.Function][]*ssa.Function{}
	var fns []*ssa.Function
	for _, f := range cfg.Universe {
		if f.Blocks == nil || !cfg.inModule(f) {
			continue
		}
		if f.Pkg != nil && strings.HasSuffix(f.Pkg.Pkg.Path(), "/martian/util") {
			cfg.oseMemo[f] = 2 // logging helpers: log text is not one of the deterministic outputs
			continue
		}
		fns = append(fns, f)
	}
	localRoot := func(v ssa.Value) bool {
		switch RootOf(v).(type) {
		case *ssa.Alloc, *ssa.MakeSlice, *ssa.MakeMap, *ssa.Const, *ssa.Call:
			return true
		}
		return false
	}
	for _, f := range fns {
		cfg.oseMemo[f] = 2
		Instrs(f, func(in ssa.Instruction) {
			if cfg.oseMemo[f] == 1 {
				return
			}
			switch x := in.(type) {
			case *ssa.Go, *ssa.Send:
				cfg.oseMemo[f], why[f] = 1, "go/send"
			case *ssa.Store:
				if _, isGlobal := RootOf(x.Addr).(*ssa.Global); isGlobal {
					cfg.oseMemo[f], why[f] = 1, "store to global"
					return
				}
				if _, isApp := IsBuiltinCall(x.Val, "append"); isApp && !localRoot(x.Addr) {
					cfg.oseMemo[f], why[f] = 1, "append stored to non-local "+Path(x.Addr)
				}
			case ssa.CallInstruction:
				cc := x.Common()
				if _, isB := cc.Value.(*ssa.Builtin); isB {
					return
				}
				if cfg.IsEmitter != nil && cfg.IsEmitter(x) {
					var w ssa.Value
					if cc.IsInvoke() {
						w = cc.Value
					} else if len(cc.Args) > 0 {
						w = cc.Args[0]
					}
					if w == nil || !localRoot(Strip(w)) {
						cfg.oseMemo[f], why[f] = 1, "emits to "+Path(w)
					}
					return
				}
				if _, isSort := cfg.IsSort(x); isSort {
					return
				}
				if callee := cc.StaticCallee(); callee != nil {
					if callee.Pkg != nil && callee.Signature.Recv() != nil && len(cc.Args) > 0 {
						switch callee.Pkg.Pkg.Path() {
						case "strings", "bytes":
							if localRoot(Strip(cc.Args[0])) {
								return
							}
						}
					}
					if cfg.inModule(callee) && callee.Blocks != nil {
						callees[f] = append(callees[f], callee)
					} else if cfg.oseExternal(callee) {
						cfg.oseMemo[f], why[f] = 1, "calls external "+callee.String()
					}
					return
				}
				if cfg.Callees != nil {
					cs := cfg.Callees(x)
					if len(cs) == 0 {
						if cc.IsInvoke() {
							return
						}
						cfg.oseMemo[f], why[f] = 1, "unknown callee at "+x.String()
						return
					}
					for _, callee := range cs {
						if cfg.inModule(callee) && callee.Blocks != nil {
							callees[f] = append(callees[f], callee)
						} else if cfg.oseExternal(callee) {
							cfg.oseMemo[f], why[f] = 1, "may call external "+callee.String()
						}
					}
					return
				}
				cfg.oseMemo[f], why[f] = 1, "dynamic call"
			}
		})
	}
	changed := true
	for changed {
		changed = false
		for _, f := range fns {
			if cfg.oseMemo[f] == 1 {
				continue
			}
			for _, g := range callees[f] {
				v, known := cfg.oseMemo[g]
				if (known && v == 1) || (!known && cfg.oseExternal(g)) {
					cfg.oseMemo[f], why[f] = 1, "calls "+g.String()
					changed = true
					break
				}
			}
		}
	}
	if os.Getenv("MROCHECK_DEBUG_OSE") != "" {
		for _, f := range fns {
			if cfg.oseMemo[f] == 1 {
				fmt.Fprintf(os.Stderr, "OSE %s: %s\n", f.String(), why[f])
			}
		}
	}
}

// singleElement: the loop is guarded by len(m) == 1.
func (l *MapLoop) singleElement() bool {
	g, _ := GuardedBy(l.Range, func(r Rel) bool {
		if r.Op != token.EQL {
			return false
		}
		args, ok := IsBuiltinCall(r.X, "len")
		return ok && IsIntConst(r.Y, 1) && (args[0] == l.Range.X || Path(args[0]) == Path(l.Range.X))
	})
	return g
}

// Analyze fills l.Effects.
func (l *MapLoop) Analyze(cfg *OrderConfig) {
	if l.singleElement() {
		return
	}
	// values that vary per iteration: the Next tuple and everything derived in the body
	t := NewTaint(0, nil)
	t.Add(l.Next)
	t.Run()
	variant := func(v ssa.Value) bool { return t.Has(v) }
	add := func(kind string, in ssa.Instruction, note string) {
		l.Effects = append(l.Effects, kind)
		l.Notes = append(l.Notes, fmt.Sprintf("%s at line %d: %s", kind, l.Fn.Prog.Fset.Position(in.Pos()).Line, note))
	}
	// accumulators: header phis / allocs modified in the body
	for b := range l.Blocks {
		for _, in := range b.Instrs {
			switch x := in.(type) {
			case *ssa.MapUpdate:
				// insertion: insensitive, unless the same key can be written twice with different values
				// (last-writer-wins): key not derived from the loop key
				continue
			case *ssa.Store:
				l.analyzeStore(x, variant, add)
			case *ssa.Send:
				add("send", in, "channel send inside map loop")
			case *ssa.Return:
				// returns in blocks dominated by the body entry
				dep := false
				for _, r := range x.Results {
					if variantDeep(RetValOf(x, r), variant, 0) {
						dep = true
					}
				}
				if dep {
					add("first-match-return", in, "returns a value that depends on the current key/value: which element is reported depends on iteration order")
				}
			case *ssa.Panic:
				if variant(x.X) {
					add("first-match-panic", in, "panics with a message that depends on the current key/value")
				}
			case ssa.CallInstruction:
				l.analyzeCall(x, cfg, variant, add)
			}
		}
	}
	// phi carriers at the header / exits: appends and string concatenation
	l.analyzeCarriers(cfg, variant, add)
	sort.Strings(l.Effects)
}

// RetValOf resolves spilled results.
func RetValOf(r *ssa.Return, v ssa.Value) ssa.Value {
	for i, x := range r.Results {
		if x == v {
			return RetVal(r, i)
		}
	}
	return v
}

func (l *MapLoop) analyzeStore(st *ssa.Store, variant func(ssa.Value) bool, add func(string, ssa.Instruction, string)) {
	// temp arrays for variadic calls / composite literals: local allocs never read after -> skip
	root := RootOf(st.Addr)
	if a, ok := root.(*ssa.Alloc); ok && !a.Heap {
		// local: stores into a per-iteration temporary (declared in the body) are fine
		if l.Blocks[a.Block()] {
			return
		}
	}
	if a, ok := root.(*ssa.Alloc); ok && a.Heap && l.Blocks[a.Block()] {
		return // fresh object created in this iteration
	}
	if !variant(st.Val) {
		return // loop-invariant value (flag = true, counter handled below)
	}
	// counters / sums: x = x + f(v) with integer type are order-insensitive
	if b, ok := st.Val.(*ssa.BinOp); ok && (b.Op == token.ADD || b.Op == token.OR || b.Op == token.AND) {
		if isInteger(b.Type()) || isBool(b.Type()) {
			return
		}
	}
	if isBool(st.Val.Type()) {
		return // boolean accumulation
	}
	// a store whose block does not continue the loop (break/return follows) with a variant value = first match
	if !l.continues(st.Block()) {
		add("first-match-store", st, "stores the current key/value and leaves the loop: which element is kept depends on iteration order")
		return
	}
	// storing into an element addressed by the key itself (m2[k] handled by MapUpdate); field of per-key object
	if variant(st.Addr) {
		return // destination is selected by the key/value: each iteration writes its own location
	}
	add("last-writer-store", st, "overwrites a loop-invariant location with a value that depends on the current key/value: the last iteration wins")
}

func isInteger(t types.Type) bool {
	b, ok := t.Underlying().(*types.Basic)
	return ok && b.Info()&types.IsInteger != 0
}

func isBool(t types.Type) bool {
	b, ok := t.Underlying().(*types.Basic)
	return ok && b.Info()&types.IsBoolean != 0
}

func (l *MapLoop) analyzeCall(c ssa.CallInstruction, cfg *OrderConfig, variant func(ssa.Value) bool, add func(string, ssa.Instruction, string)) {
	cc := c.Common()
	in := c.(ssa.Instruction)
	if b, ok := cc.Value.(*ssa.Builtin); ok {
		switch b.Name() {
		case "append", "len", "cap", "delete", "copy", "make", "new", "min", "max", "print", "println", "close":
		}
		return
	}
	if cfg.IsEmitter != nil && cfg.IsEmitter(c) {
		add("emit", in, "writes to an output inside the map loop: the output order follows iteration order")
		return
	}
	if _, isSort := cfg.IsSort(c); isSort {
		return
	}
	callee := cc.StaticCallee()
	name := "?"
	sensitive := false
	if callee != nil {
		name = callee.Name()
		sensitive = cfg.OSE(callee)
	} else if cc.IsInvoke() {
		name = cc.Method.Name()
		if cfg.Callees != nil {
			cs := cfg.Callees(c)
			if len(cs) == 0 {
				sensitive = false // no implementation reachable
			}
			for _, f := range cs {
				if cfg.OSE(f) {
					sensitive = true
				}
			}
		} else {
			sensitive = true
		}
	} else {
		// closure / function value
		if cfg.Callees != nil {
			for _, f := range cfg.Callees(c) {
				name = f.Name()
				if cfg.OSE(f) {
					sensitive = true
				}
			}
		} else {
			sensitive = true
		}
	}
	if _, isGo := c.(*ssa.Go); isGo {
		add("go", in, "starts a goroutine per element")
		return
	}
	if !sensitive {
		return
	}
	_ = variant
	add("call("+name+")", in, "the callee emits output / accumulates into shared state / starts goroutines, so the order of calls is observable")
}

// analyzeCarriers: values that survive an iteration (phis at the loop header or
// at loop exits, captured variables) built with append or string concatenation.
func (l *MapLoop) analyzeCarriers(cfg *OrderConfig, variant func(ssa.Value) bool, add func(string, ssa.Instruction, string)) {
	hdr := l.Next.Block()
	for b := range l.Blocks {
		for _, in := range b.Instrs {
			call, ok := in.(*ssa.Call)
			if !ok {
				// string concatenation accumulators
				if bo, isBin := in.(*ssa.BinOp); isBin && bo.Op == token.ADD && bo.Type().String() == "string" {
					if l.flowsToHeader(bo, hdr) {
						add("concat", in, "builds a string across iterations")
					}
				}
				continue
			}
			args, isApp := IsBuiltinCall(call, "append")
			if !isApp {
				continue
			}
			_ = args
			// the appended slice survives the iteration if it reaches a header phi, a store to an outer variable/field, or the loop exit
			if !l.escapesIteration(call, hdr) {
				continue
			}
			kind := "append"
			if cfg.IsErrorList != nil && cfg.IsErrorList(call.Type()) {
				kind = "append(ErrorList)"
				add(kind, in, "error messages are accumulated in iteration order")
				continue
			}
			// collect-then-sort?
			if l.sortedBeforeUse(call, cfg) {
				continue
			}
			// used only as a set after the loop (len / range membership)?
			add(kind, in, "elements are accumulated in iteration order and the slice is used without being sorted")
		}
	}
}

func (l *MapLoop) flowsToHeader(v ssa.Value, hdr *ssa.BasicBlock) bool {
	for _, r := range Referrers(v) {
		if ph, ok := r.(*ssa.Phi); ok && (ph.Block() == hdr || !l.Blocks[ph.Block()]) {
			return true
		}
		if st, ok := r.(*ssa.Store); ok && st.Val == v {
			if a, isAlloc := RootOf(st.Addr).(*ssa.Alloc); isAlloc && l.Blocks[a.Block()] {
				continue // per-iteration temporary (variadic argument array, composite literal)
			}
			return true
		}
	}
	return false
}

// escapesIteration: the append result is stored to an outer location or
// merges into a phi outside the per-iteration scope.
func (l *MapLoop) escapesIteration(call *ssa.Call, hdr *ssa.BasicBlock) bool {
	seen := map[ssa.Value]bool{}
	var rec func(v ssa.Value) bool
	rec = func(v ssa.Value) bool {
		if seen[v] {
			return false
		}
		seen[v] = true
		for _, r := range Referrers(v) {
			switch x := r.(type) {
			case *ssa.Phi:
				if x.Block() == hdr || !l.Blocks[x.Block()] {
					return true
				}
				if rec(x) {
					return true
				}
			case *ssa.Store:
				if x.Val == v {
					root := RootOf(x.Addr)
					if a, ok := root.(*ssa.Alloc); ok && l.Blocks[a.Block()] {
						continue
					}
					return true
				}
			case *ssa.Return:
				return true
			case *ssa.MapUpdate:
				// per-key slot
				continue
			}
		}
		return false
	}
	return rec(call)
}

// sortedBeforeUse: every use of the accumulated slice after the loop is
// preceded by a sort of it (collect-then-sort), or only len()/cap() is taken.
func (l *MapLoop) sortedBeforeUse(call *ssa.Call, cfg *OrderConfig) bool {
	fn := l.Fn
	// the accumulator web: phis and appends connected to call; plus the variable's cell if stored
	web := map[ssa.Value]bool{}
	var cells []ssa.Value
	var grow func(v ssa.Value)
	grow = func(v ssa.Value) {
		if v == nil || web[v] {
			return
		}
		web[v] = true
		switch x := v.(type) {
		case *ssa.Phi:
			for _, e := range x.Edges {
				if _, isC := e.(*ssa.Const); !isC {
					grow(e)
				}
			}
		case *ssa.Call:
			if args, ok := IsBuiltinCall(x, "append"); ok {
				grow(args[0])
			}
		case *ssa.UnOp:
			if x.Op == token.MUL {
				cells = append(cells, x.X)
			}
		case *ssa.Slice:
			grow(x.X)
		}
		for _, r := range Referrers(v) {
			switch y := r.(type) {
			case *ssa.Phi:
				grow(y)
			case *ssa.Call:
				if args, ok := IsBuiltinCall(y, "append"); ok && args[0] == v {
					grow(y)
				}
			case *ssa.Store:
				if y.Val == v {
					cells = append(cells, y.Addr)
				}
			case *ssa.Slice:
				if y.X == v {
					grow(y)
				}
			case *ssa.MakeInterface:
				grow(y)
			case *ssa.ChangeType:
				grow(y)
			case *ssa.Convert:
				grow(y)
			}
		}
	}
	grow(call)
	// loads of the cells also belong to the web
	for _, cell := range cells {
		cp := Path(cell)
		Instrs(fn, func(in ssa.Instruction) {
			if u, ok := in.(*ssa.UnOp); ok && u.Op == token.MUL && Path(u.X) == cp {
				grow(u)
			}
		})
	}
	inWeb := func(v ssa.Value) bool { return web[v] }
	isSortOfWeb := func(in ssa.Instruction) bool {
		c, ok := in.(ssa.CallInstruction)
		if !ok {
			return false
		}
		v, isSort := cfg.IsSort(c)
		if !isSort {
			return false
		}
		if inWeb(v) {
			return true
		}
		// sort.Sort(T(x)) / sort.Slice(x, ...) with conversions
		return inWeb(Strip(v))
	}
	benign := func(in ssa.Instruction) bool {
		switch x := in.(type) {
		case *ssa.Phi:
			return true
		case *ssa.Call:
			if b, ok := x.Call.Value.(*ssa.Builtin); ok {
				switch b.Name() {
				case "len", "cap", "append":
					return true
				}
			}
		case *ssa.Store:
			// storing the accumulator back into its own cell
			for _, cell := range cells {
				if x.Addr == cell || Path(x.Addr) == Path(cell) {
					return true
				}
			}
		case *ssa.Slice:
			return true
		case *ssa.DebugRef:
			return true
		case *ssa.BinOp:
			// nil comparison
			return true
		case *ssa.If:
			return true
		case *ssa.ChangeType, *ssa.MakeInterface, *ssa.Convert:
			return true // alias of the accumulator (e.g. sort.Sort(T(x)), sort.Slice(x, ...))
		case *ssa.MakeClosure:
			return true // captured by a comparator closure
		}
		return false
	}
	// any non-benign use of a web value outside the loop that is reachable from the loop without passing a sort?
	exitStarts := l.exitBlocks()
	// a cell that outlives the function (a field of the receiver or of a parameter, a global, a
	// place reached through a pointer): storing the accumulator there publishes it, so returning
	// without having sorted it is a use
	escapes := false
	for _, cell := range cells {
		root := cell
		for i := 0; i < 12; i++ {
			switch x := root.(type) {
			case *ssa.FieldAddr:
				root = x.X
				continue
			case *ssa.IndexAddr:
				root = x.X
				continue
			case *ssa.UnOp:
				root = x.X
				continue
			}
			break
		}
		if al, ok := root.(*ssa.Alloc); ok && spilledParam(al) == nil {
			if _, isPtr := al.Type().Underlying().(*types.Pointer).Elem().Underlying().(*types.Pointer); !isPtr {
				continue
			}
		}
		escapes = true
	}
	uses := func(in ssa.Instruction) bool {
		if _, isRet := in.(*ssa.Return); isRet && escapes {
			return true
		}
		if isSortOfWeb(in) || benign(in) {
			return false
		}
		for _, op := range in.Operands(nil) {
			if op != nil && *op != nil && inWeb(*op) {
				return true
			}
		}
		return false
	}
	for _, start := range exitStarts {
		if findFromBlock(start, uses, isSortOfWeb) {
			return false
		}
	}
	// also uses inside the loop body other than append (e.g. emitting the partial slice)
	for b := range l.Blocks {
		for _, in := range b.Instrs {
			if uses(in) {
				// MapUpdate storing the slice per key is fine
				if _, ok := in.(*ssa.MapUpdate); ok {
					continue
				}
				return false
			}
		}
	}
	return true
}

func (l *MapLoop) exitBlocks() []*ssa.BasicBlock {
	var out []*ssa.BasicBlock
	hdr := l.Next.Block()
	for _, s := range hdr.Succs {
		if !l.Blocks[s] {
			out = append(out, s)
		}
	}
	for b := range l.Blocks {
		for _, s := range b.Succs {
			if !l.Blocks[s] && s != hdr {
				out = append(out, s)
			}
		}
	}
	return out
}

func findFromBlock(b *ssa.BasicBlock, target, barrier func(ssa.Instruction) bool) bool {
	seen := map[*ssa.BasicBlock]bool{}
	var walk func(x *ssa.BasicBlock) bool
	walk = func(x *ssa.BasicBlock) bool {
		if seen[x] {
			return false
		}
		seen[x] = true
		for _, in := range x.Instrs {
			if barrier(in) {
				return false
			}
			if target(in) {
				return true
			}
		}
		for _, s := range x.Succs {
			if walk(s) {
				return true
			}
		}
		return false
	}
	return walk(b)
}

var _ = strings.TrimSpace

// variantDeep: v varies per iteration, or v is a freshly allocated object one of whose fields was
// stored with a value that does (an error value carrying the current element's location).
func variantDeep(v ssa.Value, variant func(ssa.Value) bool, d int) bool {
	if v == nil || d > 4 {
		return false
	}
	if variant(v) {
		return true
	}
	base := v
	for i := 0; i < 4; i++ {
		switch x := base.(type) {
		case *ssa.MakeInterface:
			base = x.X
			continue
		case *ssa.ChangeInterface:
			base = x.X
			continue
		case *ssa.ChangeType:
			base = x.X
			continue
		}
		break
	}
	al, ok := base.(*ssa.Alloc)
	if !ok {
		return false
	}
	for _, r := range Referrers(al) {
		fa, ok := r.(*ssa.FieldAddr)
		if !ok {
			continue
		}
		for _, r2 := range Referrers(fa) {
			if st, ok := r2.(*ssa.Store); ok && st.Addr == ssa.Value(fa) && variantDeep(st.Val, variant, d+1) {
				return true
			}
		}
	}
	return false
}
