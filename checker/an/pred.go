package an

import (
	"go/token"
	"go/types"

	"golang.org/x/tools/go/ssa"
)

// ---------------------------------------------------------------------------
// Predicate helpers.
//
// A condition is often moved into a small boolean function: `if isFinished(s)`
// instead of `if s == Complete || s == DisabledState`.  EdgeDNF gives the
// meaning of a conditional edge as a disjunction of conjunctions of atomic
// relations: one disjunct per way the helper can produce the truth value the
// edge needs, each disjunct the relations that held on that way.  Parameters
// of the helper are replaced by the actual arguments, so the relations talk
// about the caller's values wherever the helper compares its parameters
// directly.
//
// EdgeHolds(from, to, pred): on the edge, whatever way the condition came
// out as it did, some relation accepted by pred held.  For a plain condition
// this is pred(Normalize(cond, truth)).
// ---------------------------------------------------------------------------

const maxPredPaths = 64

// EdgeDNF returns the meaning of the edge; ok is false for unconditional edges.
func EdgeDNF(from, to *ssa.BasicBlock) ([][]Rel, bool) {
	cond, truth, ok := EdgeCond(from, to)
	if !ok {
		return nil, false
	}
	return CondDNF(cond, truth, 0), true
}

// EdgeHolds: see above.
func EdgeHolds(from, to *ssa.BasicBlock, pred func(Rel) bool) bool {
	dnf, ok := EdgeDNF(from, to)
	if !ok {
		return false
	}
	return DNFHolds(dnf, pred)
}

func DNFHolds(dnf [][]Rel, pred func(Rel) bool) bool {
	if len(dnf) == 0 {
		return false
	}
	for _, conj := range dnf {
		hit := false
		for _, r := range conj {
			if pred(r) {
				hit = true
				break
			}
		}
		if !hit {
			return false
		}
	}
	return true
}

// CondDNF expands (cond == truth).
func CondDNF(cond ssa.Value, truth bool, depth int) [][]Rel {
	base := Normalize(cond, truth)
	if base.Op != token.ILLEGAL || depth > 2 {
		return [][]Rel{{base}}
	}
	idx := 0
	call, ok := base.X.(*ssa.Call)
	if !ok {
		// one boolean result of a multi-result helper: `ok, err := helper(...)`
		ex, isEx := base.X.(*ssa.Extract)
		if !isEx {
			return [][]Rel{{base}}
		}
		call, ok = ex.Tuple.(*ssa.Call)
		if !ok {
			return [][]Rel{{base}}
		}
		idx = ex.Index
	}
	h := call.Call.StaticCallee()
	if h == nil || h.Blocks == nil || len(h.Blocks) > 60 || !isBoolResultAt(h, idx) || !sameModule(h, call.Parent()) {
		return [][]Rel{{base}}
	}
	paths := predicatePaths(h, base.Truth, depth, idx)
	if paths == nil {
		return [][]Rel{{base}}
	}
	// substitute parameters by actual arguments
	sub := map[ssa.Value]ssa.Value{}
	for i, p := range h.Params {
		if i < len(call.Call.Args) {
			sub[p] = call.Call.Args[i]
		}
	}
	out := make([][]Rel, 0, len(paths))
	for _, conj := range paths {
		nc := make([]Rel, 0, len(conj)+1)
		// the helper call itself keeps its meaning too (rules that look for the call by name still match)
		nc = append(nc, base)
		for _, r := range conj {
			nc = append(nc, substRel(r, sub))
		}
		out = append(out, nc)
	}
	return out
}

func substRel(r Rel, sub map[ssa.Value]ssa.Value) Rel {
	s := func(v ssa.Value) ssa.Value {
		if v == nil {
			return v
		}
		if a, ok := sub[v]; ok {
			return a
		}
		// conversions of a parameter
		switch x := v.(type) {
		case *ssa.Convert:
			if a, ok := sub[x.X]; ok {
				if types.Identical(a.Type(), x.Type()) {
					return a
				}
			}
		case *ssa.ChangeType:
			if a, ok := sub[x.X]; ok {
				return a
			}
		}
		return v
	}
	// keep the substitution: operands of a call inside the predicate helper (state.HasPrefix(p))
	// still name the helper's parameters; Rel.Arg resolves them to the caller's values
	comp := map[ssa.Value]ssa.Value{}
	for k, v := range r.Sub {
		if a, ok := sub[v]; ok {
			comp[k] = a
		} else {
			comp[k] = v
		}
	}
	for k, v := range sub {
		if _, ok := comp[k]; !ok {
			comp[k] = v
		}
	}
	return Rel{Op: r.Op, X: s(r.X), Y: s(r.Y), Truth: r.Truth, Sub: comp}
}

// Arg resolves a value that occurs inside a predicate helper (an operand of a call that is one
// side of the relation) to the value the outermost caller passed for it.
func (r Rel) Arg(v ssa.Value) ssa.Value {
	for i := 0; i < 4; i++ {
		a, ok := r.Sub[v]
		if !ok || a == v {
			return v
		}
		v = a
	}
	return v
}

func isBoolResultAt(f *ssa.Function, idx int) bool {
	res := f.Signature.Results()
	if idx >= res.Len() {
		return false
	}
	b, ok := res.At(idx).Type().Underlying().(*types.Basic)
	return ok && b.Info()&types.IsBoolean != 0
}

func sameModule(a, b *ssa.Function) bool {
	if a == nil || b == nil || a.Pkg == nil {
		return false
	}
	for b != nil && b.Parent() != nil {
		b = b.Parent()
	}
	if b == nil || b.Pkg == nil {
		return false
	}
	pa, pb := a.Pkg.Pkg.Path(), b.Pkg.Pkg.Path()
	return len(pa) >= len(ModPath) && len(pb) >= len(ModPath) && pa[:len(ModPath)] == ModPath && pb[:len(ModPath)] == ModPath
}

// predicatePaths enumerates the acyclic paths of h from entry to a return that yields `want`
// (a constant want, or a returned comparison taken with that truth value) and collects the
// relations of the conditional edges crossed.  nil when h has loops on those paths, too many
// paths, or a returned value that is neither constant nor a condition.
func predicatePaths(h *ssa.Function, want bool, depth int, idx int) [][]Rel {
	var out [][]Rel
	fail := false
	onPath := map[*ssa.BasicBlock]bool{}
	var walk func(b, prev *ssa.BasicBlock, conj []Rel)
	walk = func(b, prev *ssa.BasicBlock, conj []Rel) {
		if fail {
			return
		}
		if onPath[b] {
			// a loop: each iteration's relations hold for that element only; give up on this helper
			fail = true
			return
		}
		if len(out) > maxPredPaths {
			fail = true
			return
		}
		onPath[b] = true
		defer func() { onPath[b] = false }()
		last := b.Instrs[len(b.Instrs)-1]
		switch t := last.(type) {
		case *ssa.Return:
			if idx >= len(t.Results) {
				fail = true
				return
			}
			v := RetVal(t, idx)
			if ph, ok := v.(*ssa.Phi); ok {
				// short-circuit result: the predecessor on this path selects the incoming value
				if ph.Block() != b || prev == nil {
					fail = true
					return
				}
				found := false
				for i, p := range b.Preds {
					if p == prev {
						v = ph.Edges[i]
						found = true
					}
				}
				if !found {
					fail = true
					return
				}
			}
			switch x := v.(type) {
			case *ssa.Const:
				if x.Value == nil {
					fail = true
					return
				}
				if (x.Value.String() == "true") == want {
					out = append(out, append([]Rel{}, conj...))
				}
			case *ssa.Phi:
				fail = true
			default:
				// a computed condition returned directly: it holds with truth `want`
				for _, d := range CondDNF(v, want, depth+1) {
					out = append(out, append(append([]Rel{}, conj...), d...))
				}
			}
		case *ssa.If:
			for i, s := range b.Succs {
				truth := i == 0
				for _, d := range CondDNF(t.Cond, truth, depth+1) {
					nc := append(append([]Rel{}, conj...), d...)
					walk(s, b, nc)
				}
			}
		case *ssa.Jump:
			walk(b.Succs[0], b, conj)
		case *ssa.Panic:
			// no return on this path
		default:
			fail = true
		}
	}
	walk(h.Blocks[0], nil, nil)
	if fail {
		return nil
	}
	return out
}

// ReturnExpr: v is a call of a module function whose only return instruction returns a single
// expression; that expression (a value of the callee) is returned so that structural matchers
// (field loads, arithmetic shape) can look through one-line accessors such as
// `func (s *T) unreserved() int64 { return s.curSize - s.reserved }`.
func ReturnExpr(v ssa.Value) (ssa.Value, bool) {
	call, ok := Strip(v).(*ssa.Call)
	if !ok {
		return nil, false
	}
	h := call.Call.StaticCallee()
	if h == nil || h.Blocks == nil || len(h.Blocks) > 3 || !sameModule(h, call.Parent()) {
		return nil, false
	}
	var ret *ssa.Return
	n := 0
	Instrs(h, func(in ssa.Instruction) {
		if r, ok := in.(*ssa.Return); ok {
			ret = r
			n++
		}
	})
	if n != 1 || len(ret.Results) != 1 {
		return nil, false
	}
	return RetVal(ret, 0), true
}
