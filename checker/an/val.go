package an

import (
	"fmt"
	"go/constant"
	"go/token"
	"go/types"
	"regexp"
	"strings"

	"golang.org/x/tools/go/ssa"
)

// Strip looks through conversions that do not change the value's identity.
func Strip(v ssa.Value) ssa.Value {
	for {
		switch x := v.(type) {
		case *ssa.ChangeType:
			v = x.X
		case *ssa.Convert:
			v = x.X
		case *ssa.MakeInterface:
			v = x.X
		case *ssa.ChangeInterface:
			v = x.X
		default:
			return v
		}
	}
}

// StaticCallee returns the statically known callee of a call instruction
// (function, method, or immediately applied closure).
func StaticCallee(c ssa.CallInstruction) *ssa.Function {
	if c == nil {
		return nil
	}
	return c.Common().StaticCallee()
}

// AsCall returns the CallInstruction view of an instruction or value.
func AsCall(x interface{}) ssa.CallInstruction {
	switch c := x.(type) {
	case *ssa.Call:
		return c
	case *ssa.Defer:
		return c
	case *ssa.Go:
		return c
	}
	return nil
}

// CalleeIs reports whether the instruction is a plain call (not go/defer) to fn.
func CalleeIs(in ssa.Instruction, fns ...*ssa.Function) bool {
	c, ok := in.(*ssa.Call)
	if !ok {
		return false
	}
	cal := c.Common().StaticCallee()
	if cal == nil {
		return false
	}
	for _, f := range fns {
		if f != nil && (cal == f || cal.Origin() == f) {
			return true
		}
	}
	return false
}

// IsBuiltinCall reports whether v is a call of the named builtin and returns its args.
func IsBuiltinCall(v ssa.Value, name string) ([]ssa.Value, bool) {
	c, ok := v.(*ssa.Call)
	if !ok {
		return nil, false
	}
	b, ok := c.Call.Value.(*ssa.Builtin)
	if !ok || b.Name() != name {
		return nil, false
	}
	return c.Call.Args, true
}

// CallArgs returns receiver (nil for functions) and the ordinary arguments.
func CallArgs(c ssa.CallInstruction) (recv ssa.Value, args []ssa.Value) {
	cc := c.Common()
	if cc.IsInvoke() {
		return cc.Value, cc.Args
	}
	if f := cc.StaticCallee(); f != nil && f.Signature.Recv() != nil && len(cc.Args) > 0 {
		return cc.Args[0], cc.Args[1:]
	}
	return nil, cc.Args
}

// ConstVal returns the constant value of v if it is a constant.
func ConstVal(v ssa.Value) (constant.Value, bool) {
	c, ok := Strip(v).(*ssa.Const)
	if !ok || c.Value == nil {
		return nil, false
	}
	return c.Value, true
}

// IsConst reports whether v is a constant equal to the value of obj
// (and, for named constant types, of identical type).
func IsConst(v ssa.Value, obj *types.Const) bool {
	if obj == nil {
		return false
	}
	c, ok := v.(*ssa.Const)
	if !ok || c.Value == nil {
		// allow conversion of a constant
		c2, ok2 := Strip(v).(*ssa.Const)
		if !ok2 || c2.Value == nil {
			return false
		}
		c = c2
	}
	// values of different kinds are never equal (constant.Compare is only defined within a kind)
	ck, ok2 := c.Value.Kind(), obj.Val().Kind()
	if (ck == constant.String) != (ok2 == constant.String) || (ck == constant.Bool) != (ok2 == constant.Bool) {
		return false
	}
	if !constant.Compare(c.Value, token.EQL, obj.Val()) {
		return false
	}
	if _, named := obj.Type().(*types.Named); named {
		return types.Identical(c.Type(), obj.Type()) || types.Identical(v.Type(), obj.Type())
	}
	return true
}

// IsNil reports whether v is the nil constant.
func IsNil(v ssa.Value) bool {
	c, ok := v.(*ssa.Const)
	return ok && c.Value == nil
}

// IsStringConst reports whether v is the given string constant.
func IsStringConst(v ssa.Value, s string) bool {
	cv, ok := ConstVal(v)
	return ok && cv.Kind() == constant.String && constant.StringVal(cv) == s
}

// IsIntConst reports whether v is the given integer constant.
func IsIntConst(v ssa.Value, n int64) bool {
	cv, ok := ConstVal(v)
	if !ok || cv.Kind() != constant.Int {
		return false
	}
	i, exact := constant.Int64Val(cv)
	return exact && i == n
}

// FieldOfAddr: if v is &x.f returns (x, f).
func FieldOfAddr(v ssa.Value) (ssa.Value, *types.Var) {
	fa, ok := v.(*ssa.FieldAddr)
	if !ok {
		return nil, nil
	}
	st := derefStruct(fa.X.Type())
	if st == nil {
		return nil, nil
	}
	return fa.X, st.Field(fa.Field)
}

// FieldLoad: if v is a load of x.f (through pointer or value) returns (x, f).
func FieldLoad(v ssa.Value) (ssa.Value, *types.Var) {
	switch x := v.(type) {
	case *ssa.UnOp:
		if x.Op == token.MUL {
			return FieldOfAddr(x.X)
		}
	case *ssa.Field:
		st, _ := x.X.Type().Underlying().(*types.Struct)
		if st == nil {
			return nil, nil
		}
		return x.X, st.Field(x.Field)
	}
	return nil, nil
}

func derefStruct(t types.Type) *types.Struct {
	if p, ok := t.Underlying().(*types.Pointer); ok {
		t = p.Elem()
	}
	st, _ := t.Underlying().(*types.Struct)
	return st
}

// LoadsField reports whether v (after stripping conversions) is a load of field f.
func LoadsField(v ssa.Value, f *types.Var) bool {
	_, g := FieldLoad(Strip(v))
	return g != nil && g == f
}

// Path renders a canonical access-path string for pure expressions, so that
// two syntactically separate evaluations of `self.curSize - self.reserved`
// compare equal.  Unknown shapes render as a unique opaque token.
func Path(v ssa.Value) string {
	return pathDepth(v, 0)
}

func pathDepth(v ssa.Value, d int) string {
	if d > 12 {
		return opaque(v)
	}
	switch x := v.(type) {
	case nil:
		return "<nil>"
	case *ssa.Parameter:
		return x.Name()
	case *ssa.FreeVar:
		return x.Name()
	case *ssa.Const:
		if x.Value == nil {
			return "nil"
		}
		return x.Value.ExactString()
	case *ssa.Global:
		return x.Name()
	case *ssa.Function:
		return x.Name()
	case *ssa.Alloc:
		if prm := spilledParam(x); prm != nil {
			return prm.Name()
		}
		if x.Comment != "" {
			return "local:" + x.Comment
		}
		return opaque(v)
	case *ssa.FieldAddr:
		_, f := FieldOfAddr(x)
		return "&" + derefPath(pathDepth(x.X, d+1)) + "." + f.Name()
	case *ssa.Field:
		_, f := FieldLoad(x)
		return pathDepth(x.X, d+1) + "." + f.Name()
	case *ssa.UnOp:
		switch x.Op {
		case token.MUL:
			inner := pathDepth(x.X, d+1)
			if strings.HasPrefix(inner, "&") {
				return inner[1:]
			}
			// deref of a captured variable or local: use the name itself
			if _, ok := x.X.(*ssa.FreeVar); ok {
				return inner
			}
			if a, ok := x.X.(*ssa.Alloc); ok && a.Comment != "" {
				return inner
			}
			return "*" + inner
		case token.NOT:
			return "!" + pathDepth(x.X, d+1)
		case token.SUB:
			return "-" + pathDepth(x.X, d+1)
		case token.ARROW:
			return "<-" + pathDepth(x.X, d+1)
		}
	case *ssa.BinOp:
		return "(" + pathDepth(x.X, d+1) + x.Op.String() + pathDepth(x.Y, d+1) + ")"
	case *ssa.ChangeType:
		return pathDepth(x.X, d+1)
	case *ssa.Convert:
		return pathDepth(x.X, d+1)
	case *ssa.MakeInterface:
		return pathDepth(x.X, d+1)
	case *ssa.ChangeInterface:
		return pathDepth(x.X, d+1)
	case *ssa.IndexAddr:
		return "&" + derefPath(pathDepth(x.X, d+1)) + "[" + pathDepth(x.Index, d+1) + "]"
	case *ssa.Index:
		return pathDepth(x.X, d+1) + "[" + pathDepth(x.Index, d+1) + "]"
	case *ssa.Lookup:
		return pathDepth(x.X, d+1) + "[" + pathDepth(x.Index, d+1) + "]"
	case *ssa.Extract:
		return pathDepth(x.Tuple, d+1) + "#" + fmt.Sprint(x.Index)
	case *ssa.TypeAssert:
		return pathDepth(x.X, d+1) + ".(" + types.TypeString(x.AssertedType, func(*types.Package) string { return "" }) + ")"
	case *ssa.Call:
		if b, ok := x.Call.Value.(*ssa.Builtin); ok {
			var as []string
			for _, a := range x.Call.Args {
				as = append(as, pathDepth(a, d+1))
			}
			return b.Name() + "(" + strings.Join(as, ",") + ")"
		}
		var name string
		if x.Call.IsInvoke() {
			name = pathDepth(x.Call.Value, d+1) + "." + x.Call.Method.Name()
		} else if f := x.Call.StaticCallee(); f != nil {
			name = f.Name()
		} else {
			return opaque(v)
		}
		var as []string
		for _, a := range x.Call.Args {
			as = append(as, pathDepth(a, d+1))
		}
		// calls are not pure in general; the caller decides whether to trust equality
		return name + "(" + strings.Join(as, ",") + ")@" + x.Name()
	}
	return opaque(v)
}

func derefPath(s string) string {
	// the base of a FieldAddr is a pointer value p; p.f is written p.f
	return s
}

func opaque(v ssa.Value) string {
	if v == nil {
		return "<nil>"
	}
	if v.Parent() != nil {
		return "%" + v.Name() + "@" + v.Parent().Name()
	}
	return "%" + v.Name()
}

// RootOf walks through field/index/deref/conversion chains to the base value
// (parameter, free variable, call result, alloc, phi, ...).
func RootOf(v ssa.Value) ssa.Value {
	for i := 0; i < 64; i++ {
		switch x := v.(type) {
		case *ssa.FieldAddr:
			v = x.X
		case *ssa.Field:
			v = x.X
		case *ssa.IndexAddr:
			v = x.X
		case *ssa.Index:
			v = x.X
		case *ssa.Lookup:
			v = x.X
		case *ssa.UnOp:
			if x.Op == token.MUL {
				v = x.X
			} else {
				return v
			}
		case *ssa.ChangeType:
			v = x.X
		case *ssa.Convert:
			v = x.X
		case *ssa.MakeInterface:
			v = x.X
		case *ssa.ChangeInterface:
			v = x.X
		case *ssa.TypeAssert:
			v = x.X
		case *ssa.Slice:
			v = x.X
		case *ssa.Extract:
			return v
		default:
			return v
		}
	}
	return v
}

// Referrers returns the instructions that use v (nil-safe).
func Referrers(v ssa.Value) []ssa.Instruction {
	if v == nil {
		return nil
	}
	r := v.Referrers()
	if r == nil {
		return nil
	}
	return *r
}

// StoresToField lists the Store instructions in fn (and nested closures)
// whose address is &x.f.
func StoresToField(fn *ssa.Function, f *types.Var) []*ssa.Store {
	var out []*ssa.Store
	InstrsDeep(fn, func(_ *ssa.Function, in ssa.Instruction) {
		if st, ok := in.(*ssa.Store); ok {
			if _, g := FieldOfAddr(st.Addr); g == f {
				out = append(out, st)
			}
		}
	})
	return out
}

// FieldAddrsOf lists all FieldAddr/Field instructions accessing f in fn (no closures).
func FieldAccesses(fn *ssa.Function, f *types.Var) []ssa.Instruction {
	var out []ssa.Instruction
	Instrs(fn, func(in ssa.Instruction) {
		switch x := in.(type) {
		case *ssa.FieldAddr:
			if _, g := FieldOfAddr(x); g == f {
				out = append(out, in)
			}
		case *ssa.Field:
			if _, g := FieldLoad(x); g == f {
				out = append(out, in)
			}
		}
	})
	return out
}

// IsMethodCall reports whether in is a call (any kind: call/defer/go) of the
// method named name on a receiver whose (pointer-stripped) named type is
// pkgPath.typeName.  Works for static and interface-invoke calls.
func IsMethodCall(in ssa.Instruction, pkgPath, typeName, name string) (ssa.CallInstruction, bool) {
	c := AsCall(in)
	if c == nil {
		return nil, false
	}
	cc := c.Common()
	var recvT types.Type
	if cc.IsInvoke() {
		if cc.Method.Name() != name {
			return nil, false
		}
		recvT = cc.Value.Type()
	} else {
		f := cc.StaticCallee()
		if f == nil || f.Name() != name || f.Signature.Recv() == nil {
			return nil, false
		}
		recvT = f.Signature.Recv().Type()
	}
	if p, ok := recvT.(*types.Pointer); ok {
		recvT = p.Elem()
	}
	n, ok := recvT.(*types.Named)
	if !ok || n.Obj().Name() != typeName {
		return nil, false
	}
	if n.Obj().Pkg() == nil || n.Obj().Pkg().Path() != pkgPath {
		return nil, false
	}
	return c, true
}

// IsPkgFuncCall reports whether in calls the package-level function pkgPath.name.
func IsPkgFuncCall(in ssa.Instruction, pkgPath, name string) (ssa.CallInstruction, bool) {
	c := AsCall(in)
	if c == nil {
		return nil, false
	}
	f := c.Common().StaticCallee()
	if f == nil || f.Name() != name || f.Signature.Recv() != nil {
		return nil, false
	}
	if f.Pkg == nil || f.Pkg.Pkg.Path() != pkgPath {
		return nil, false
	}
	return c, true
}

// RetVal returns the value returned as result i, looking through the
// spill of results that go/ssa introduces in functions with defer
// (`*res = v; rundefers; t = *res; return t`).
func RetVal(r *ssa.Return, i int) ssa.Value {
	if i >= len(r.Results) {
		return nil
	}
	v := r.Results[i]
	u, ok := v.(*ssa.UnOp)
	if !ok || u.Op != token.MUL {
		return v
	}
	a, ok := u.X.(*ssa.Alloc)
	if !ok {
		return v
	}
	instrs := r.Block().Instrs
	for j := len(instrs) - 1; j >= 0; j-- {
		if st, ok := instrs[j].(*ssa.Store); ok && st.Addr == ssa.Value(a) {
			return st.Val
		}
	}
	return v
}

var regRe = regexp.MustCompile(`%?t\d+(@[\w$]+)?`)

// StablePath is Path with SSA register names removed, for use in obligation keys.
func StablePath(v ssa.Value) string {
	return regRe.ReplaceAllString(Path(v), "_")
}

// spilledParam: the alloc is the cell of a parameter that was moved to the
// heap because a closure captures it, and nothing else is ever stored into it.
func spilledParam(a *ssa.Alloc) *ssa.Parameter {
	var prm *ssa.Parameter
	for _, r := range Referrers(a) {
		switch x := r.(type) {
		case *ssa.Store:
			if x.Addr != ssa.Value(a) {
				continue
			}
			p, ok := x.Val.(*ssa.Parameter)
			if !ok || prm != nil {
				return nil
			}
			prm = p
		case *ssa.MakeClosure:
			fn, _ := x.Fn.(*ssa.Function)
			if fn == nil {
				return nil
			}
			for i, b := range x.Bindings {
				if b == ssa.Value(a) && i < len(fn.FreeVars) {
					if freeVarStored(fn, fn.FreeVars[i]) {
						return nil
					}
				}
			}
		}
	}
	return prm
}

func freeVarStored(fn *ssa.Function, fv *ssa.FreeVar) bool {
	for _, r := range Referrers(fv) {
		switch x := r.(type) {
		case *ssa.Store:
			if x.Addr == ssa.Value(fv) {
				return true
			}
		case *ssa.MakeClosure:
			g, _ := x.Fn.(*ssa.Function)
			if g == nil {
				return true
			}
			for i, b := range x.Bindings {
				if b == ssa.Value(fv) && i < len(g.FreeVars) && freeVarStored(g, g.FreeVars[i]) {
					return true
				}
			}
		}
	}
	return false
}

// ParamOf: v is the parameter prm itself, a load of the heap cell a captured parameter was moved
// to, or - inside a closure - a load of the free variable bound to that cell (nothing else is ever
// stored into the cell).  Returns nil otherwise.
func ParamOf(v ssa.Value) *ssa.Parameter {
	switch x := v.(type) {
	case *ssa.Parameter:
		return x
	case *ssa.UnOp:
		if x.Op != token.MUL {
			return nil
		}
		switch a := x.X.(type) {
		case *ssa.Alloc:
			return spilledParam(a)
		case *ssa.FreeVar:
			fn := a.Parent()
			if fn == nil || fn.Parent() == nil {
				return nil
			}
			idx := -1
			for i, fv := range fn.FreeVars {
				if fv == a {
					idx = i
				}
			}
			var prm *ssa.Parameter
			Instrs(fn.Parent(), func(in ssa.Instruction) {
				mc, ok := in.(*ssa.MakeClosure)
				if !ok || mc.Fn != ssa.Value(fn) || idx < 0 || idx >= len(mc.Bindings) {
					return
				}
				if al, ok := mc.Bindings[idx].(*ssa.Alloc); ok {
					prm = spilledParam(al)
				}
			})
			return prm
		}
	}
	return nil
}

// CalleeName: a short name of the static callee of a call instruction ("?" if dynamic).
func CalleeName(in ssa.Instruction) string {
	if c := AsCallAny(in); c != nil {
		if f := c.Common().StaticCallee(); f != nil {
			return f.Name()
		}
		if c.Common().IsInvoke() {
			return c.Common().Method.Name()
		}
	}
	return "?"
}
