package an

import (
	"encoding/json"
	"fmt"
	"go/token"
	"os"
	"path/filepath"
	"sort"
	"strings"
	"time"

	"golang.org/x/tools/go/ssa"
)

type Status string

const (
	OK        Status = "discharged"
	Violation Status = "violation"
	Undecided Status = "undecided"
	Info      Status = "info"
)

// Obligation is one decided rule instance.
type Obligation struct {
	Rule   string `json:"rule"`
	Key    string `json:"key"` // rule + construct, never a line number
	Where  string `json:"where"`
	Status Status `json:"status"`
	Detail string `json:"detail,omitempty"`
}

// Ctx is handed to every property function.
type Ctx struct {
	P        *Prog
	Property string
	Tier     string
	Obs      []Obligation
	Notes    []string
	keys     map[string]int
	Stats    map[string]int
}

func NewCtx(p *Prog, prop, tier string) *Ctx {
	return &Ctx{P: p, Property: prop, Tier: tier, keys: map[string]int{}, Stats: map[string]int{}}
}

func (c *Ctx) add(rule, key string, pos token.Pos, st Status, detail string) {
	full := rule + ":" + key
	c.keys[full]++
	if n := c.keys[full]; n > 1 {
		full = fmt.Sprintf("%s#%d", full, n)
	}
	c.Obs = append(c.Obs, Obligation{Rule: rule, Key: full, Where: c.P.Pos(pos), Status: st, Detail: detail})
}

// Check records an obligation: ok => discharged, else violation.
func (c *Ctx) Check(rule, key string, pos token.Pos, ok bool, detail string) bool {
	if ok {
		c.add(rule, key, pos, OK, detail)
	} else {
		c.add(rule, key, pos, Violation, detail)
	}
	return ok
}

func (c *Ctx) Fail(rule, key string, pos token.Pos, detail string) {
	c.add(rule, key, pos, Violation, detail)
}

func (c *Ctx) Pass(rule, key string, pos token.Pos, detail string) {
	c.add(rule, key, pos, OK, detail)
}

// Undecided records an obligation the analysis could not decide; it fails the check.
func (c *Ctx) Undecided(rule, key string, pos token.Pos, detail string) {
	c.add(rule, key, pos, Undecided, detail)
}

func (c *Ctx) Info(rule, key string, pos token.Pos, detail string) {
	c.add(rule, key, pos, Info, detail)
}

func (c *Ctx) Note(format string, a ...interface{}) {
	c.Notes = append(c.Notes, fmt.Sprintf(format, a...))
}

// Need resolves an anchor; a nil anchor is an unresolved-anchor failure.
func (c *Ctx) NeedFunc(pkg, name string) *ssa.Function {
	f := c.P.Func(pkg, name)
	if f == nil || f.Blocks == nil {
		c.Undecided("anchor", "func:"+pkg+":"+name, token.NoPos, "anchor function not found in the current tree")
		return nil
	}
	return f
}

// Floor asserts a minimum number of matched instances for a rule (non-vacuity).
func (c *Ctx) Floor(rule, what string, got, min int) bool {
	if got < min {
		c.add(rule, "floor:"+what, token.NoPos, Undecided,
			fmt.Sprintf("rule matched %d instance(s) of %s, expected at least %d: the anchor pattern no longer matches the code", got, what, min))
		return false
	}
	c.Stats[rule+":"+what] = got
	return true
}

// WitnessString renders a block path.
func (c *Ctx) WitnessString(w *Witness) string {
	if w == nil {
		return ""
	}
	var parts []string
	lastLine := -1
	for _, b := range w.Blocks {
		for _, in := range b.Instrs {
			if in.Pos().IsValid() {
				l := c.P.Fset.Position(in.Pos()).Line
				if l != lastLine {
					parts = append(parts, fmt.Sprint(l))
					lastLine = l
				}
				break
			}
		}
	}
	if len(parts) > 14 {
		parts = append(parts[:7], append([]string{"…"}, parts[len(parts)-6:]...)...)
	}
	return "path through lines " + strings.Join(parts, "→")
}

// ---------------------------------------------------------------------------
// Known findings
// ---------------------------------------------------------------------------

type Finding struct {
	Property string `json:"property"`
	Rule     string `json:"rule"`
	Key      string `json:"key"`
	What     string `json:"what"`
	Commit   string `json:"commit,omitempty"`
}

type KnownFindings struct {
	Findings []Finding `json:"findings"`
	Fixed    []Finding `json:"fixed"`
}

func LoadKnown(path string) (*KnownFindings, error) {
	k := &KnownFindings{}
	b, err := os.ReadFile(path)
	if err != nil {
		if os.IsNotExist(err) {
			return k, nil
		}
		return nil, err
	}
	if err := json.Unmarshal(b, k); err != nil {
		return nil, err
	}
	return k, nil
}

// ---------------------------------------------------------------------------
// Evidence
// ---------------------------------------------------------------------------

type Outcome struct {
	Violations []Obligation
	Known      []Obligation
	KnownWhat  map[string]string
}

// Finish classifies obligations, writes evidence and replay files, prints the
// protocol lines, and returns the process exit code.
func (c *Ctx) Finish(verifDir string, explanation string, assumptions []string, start time.Time, seed int64, extra map[string]interface{}) int {
	known, err := LoadKnown(filepath.Join(verifDir, "known_findings.json"))
	if err != nil {
		fmt.Printf("VIOLATION property=%s replay=%s\n", c.Property, "known_findings.json-unreadable")
		return 1
	}
	kmap := map[string]Finding{}
	for _, f := range known.Findings {
		if f.Property == c.Property {
			kmap[f.Key] = f
		}
	}
	var viol, knownHit []Obligation
	discharged, info, total := 0, 0, 0
	for _, o := range c.Obs {
		switch o.Status {
		case OK:
			discharged++
			total++
		case Info:
			info++
		case Violation, Undecided:
			total++
			if f, ok := kmap[o.Key]; ok && o.Status == Violation {
				knownHit = append(knownHit, o)
				fmt.Printf("KNOWN-FINDING: property=%s %s [%s at %s]\n", c.Property, f.What, o.Key, o.Where)
			} else {
				viol = append(viol, o)
			}
		}
	}
	// replay files
	replayDir := filepath.Join(verifDir, "evidence", "replay")
	os.MkdirAll(replayDir, 0o755)
	old, _ := filepath.Glob(filepath.Join(replayDir, c.Property+"-*.json"))
	for _, f := range old {
		os.Remove(f)
	}
	for i, o := range viol {
		rp := filepath.Join(replayDir, fmt.Sprintf("%s-%d.json", c.Property, i+1))
		b, _ := json.MarshalIndent(map[string]interface{}{
			"property": c.Property, "obligation": o,
			"replay": fmt.Sprintf("/verif/bin/mrocheck -property %s -replay %s", c.Property, rp),
		}, "", " ")
		os.WriteFile(rp, b, 0o644)
		fmt.Printf("%s %s at %s: %s\n", strings.ToUpper(string(o.Status)), o.Key, o.Where, o.Detail)
		fmt.Printf("VIOLATION property=%s replay=%s\n", c.Property, rp)
	}
	// samples: a spread of obligations
	var samples []Obligation
	seenRule := map[string]int{}
	for _, o := range c.Obs {
		if seenRule[o.Rule] < 4 || o.Status == Violation || o.Status == Undecided {
			samples = append(samples, o)
			seenRule[o.Rule]++
		}
	}
	rules := map[string]int{}
	distinct := map[string]bool{}
	for _, o := range c.Obs {
		if o.Status != Info {
			rules[o.Rule]++
			distinct[o.Key] = true
		}
	}
	var ruleNames []string
	for r := range rules {
		ruleNames = append(ruleNames, fmt.Sprintf("%s=%d", r, rules[r]))
	}
	sort.Strings(ruleNames)
	nfun := 0
	for fn := range c.P.AllFns {
		if fn.Blocks != nil && fn.Synthetic == "" {
			nfun++
		}
	}
	cov := map[string]interface{}{
		"explanation":         explanation,
		"obligations":         total,
		"discharged":          discharged + len(knownHit)*0,
		"evaluations":         total,
		"distinct_nontrivial": len(distinct),
		"rule": "every obligation is one rule instance matched on a construct of /repo's current source " +
			"(key = rule:construct); distinct = distinct keys; nothing is sampled, each rule enumerates all of its sites",
		"samples":             samples,
		"all_obligations":     c.Obs,
		"obligations_by_rule": ruleNames,
		"info_items":          info,
		"exhaustive":          true,
		"checker_cmd":         fmt.Sprintf("/verif/bin/mrocheck -property %s -tier %s", c.Property, c.Tier),
		"trusted_base":        []string{"go/types", "golang.org/x/tools/go/ssa v0.29.0", "golang.org/x/tools/go/callgraph/vta", "the rule tables in /verif/checker/props"},
		"packages":            len(c.P.Pkgs),
		"functions_analysed":  nfun,
		"instance_counts":     c.Stats,
		"known_findings":      knownHit,
		"notes":               c.Notes,
	}
	for k, v := range extra {
		cov[k] = v
	}
	ev := map[string]interface{}{
		"property_id": c.Property,
		"tier":        c.Tier,
		"seed":        seed,
		"level":       "other",
		"coverage":    cov,
		"assumptions": assumptions,
		"wall_s":      time.Since(start).Seconds(),
		"violations":  len(viol),
	}
	b, _ := json.MarshalIndent(ev, "", " ")
	os.MkdirAll(filepath.Join(verifDir, "evidence"), 0o755)
	if err := os.WriteFile(filepath.Join(verifDir, "evidence", c.Property+".json"), b, 0o644); err != nil {
		fmt.Println("cannot write evidence:", err)
		return 1
	}
	fmt.Printf("property=%s tier=%s obligations=%d discharged=%d known=%d violations=%d info=%d wall=%.1fs\n",
		c.Property, c.Tier, total, discharged, len(knownHit), len(viol), info, time.Since(start).Seconds())
	if len(viol) > 0 {
		return 1
	}
	return 0
}
