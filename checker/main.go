// mrocheck decides structural necessary conditions of the martian properties
// C01..C19 from /repo's current source (static analysis only).
package main

import (
	"encoding/json"
	"flag"
	"fmt"
	"os"
	"os/exec"
	"path/filepath"
	"runtime"
	"runtime/debug"
	"sort"
	"strconv"
	"strings"
	"time"

	"mrocheck/an"
	"mrocheck/props"
)

func main() {
	prop := flag.String("property", "", "property id (C02 ...)")
	tier := flag.String("tier", "quick", "quick|thorough")
	repo := flag.String("repo", "/repo", "repository root")
	verif := flag.String("verif", "/verif", "verif root (evidence, known findings)")
	replay := flag.String("replay", "", "replay file: re-evaluate and print the recorded obligation")
	dump := flag.String("dump", "", "debug: dump SSA of pkg:func (e.g. martian/core:(*Fork).doSplit)")
	list := flag.Bool("list", false, "list registered properties")
	noSelf := flag.Bool("noselftest", false, "thorough tier without mutant self-test")
	mutant := flag.String("mutant", "", "internal: analyse one self-test mutant (child process)")
	flag.Parse()
	debug.SetGCPercent(400)
	if os.Getenv("GOMAXPROCS") == "" {
		// many threads faulting in fresh heap pages contend badly in this sandbox (28 s vs 4 s measured)
		runtime.GOMAXPROCS(4)
	}

	if *mutant != "" {
		m, ok := props.FindMutant(*mutant)
		if !ok {
			fmt.Println("unknown mutant")
			os.Exit(2)
		}
		os.Exit(props.RunMutantChild(*repo, m))
	}

	if *list {
		var ids []string
		for id := range props.Registry {
			ids = append(ids, id)
		}
		sort.Strings(ids)
		for _, id := range ids {
			fmt.Println(id)
		}
		return
	}
	if t := os.Getenv("VERIF_TIER"); t != "" && !flagSet("tier") {
		*tier = t
	}
	seed := int64(0)
	if s := os.Getenv("VERIF_SEED"); s != "" {
		seed, _ = strconv.ParseInt(s, 10, 64)
	}
	start := time.Now()

	if *dump != "" {
		p, err := an.Load(*repo, nil)
		if err != nil {
			fmt.Println(err)
			os.Exit(2)
		}
		props.Dump(p, *dump)
		return
	}

	entry, ok := props.Registry[*prop]
	if !ok {
		fmt.Printf("unknown property %q\n", *prop)
		os.Exit(2)
	}

	code := func() (code int) {
		defer func() {
			if r := recover(); r != nil {
				fmt.Printf("analysis panic: %v\n%s\n", r, debug.Stack())
				fmt.Printf("VIOLATION property=%s replay=%s\n", *prop, "analysis-panic")
				code = 1
			}
		}()
		p, err := an.Load(*repo, nil)
		if err != nil {
			fmt.Println("load failure:", err)
			fmt.Printf("VIOLATION property=%s replay=%s\n", *prop, "load-failure")
			return 1
		}
		c := an.NewCtx(p, *prop, *tier)
		entry.Run(c)
		extra := map[string]interface{}{}
		if *tier == "thorough" && !*noSelf {
			st := props.SelfTest(*prop, *repo, *verif)
			extra["self_test"] = st
			for _, m := range st {
				if m.Result == "MISSED" {
					c.Undecided("selftest", "mutant:"+m.Name, 0, "self-test mutant did not make the rule fire: the checker is defective for this rule: "+m.Detail)
				}
			}
		}
		if *tier == "thorough" && os.Getenv("MROCHECK_VARIANT") == "" {
			// the same obligations over the other file set that type-checks offline: GOOS=darwin selects
			// the *_unix / *_generic siblings of the *_linux files (signal handling, atomic writes,
			// mrjob's sync, memory and load probes).  GOOS=windows does not type-check in this repository.
			extra["variants"] = runVariant(*prop, *repo, *verif, "darwin", c)
		}
		if *replay != "" {
			b, err := os.ReadFile(*replay)
			if err != nil {
				fmt.Println(err)
				return 2
			}
			var r struct {
				Obligation an.Obligation `json:"obligation"`
			}
			json.Unmarshal(b, &r)
			found := false
			for _, o := range c.Obs {
				if o.Key == r.Obligation.Key {
					found = true
					fmt.Printf("replay %s: now %s at %s: %s\n", o.Key, o.Status, o.Where, o.Detail)
					if o.Status == an.Violation || o.Status == an.Undecided {
						fmt.Printf("VIOLATION property=%s replay=%s\n", *prop, *replay)
						return 1
					}
				}
			}
			if !found {
				fmt.Printf("replay: obligation %s no longer exists\n", r.Obligation.Key)
			}
			return 0
		}
		return c.Finish(*verif, entry.Explanation, entry.Assumptions, start, seed, extra)
	}()
	os.Exit(code)
}

func flagSet(name string) bool {
	set := false
	flag.Visit(func(f *flag.Flag) {
		if f.Name == name {
			set = true
		}
	})
	return set
}

// runVariant re-runs the property's quick obligations in a child process with another GOOS and
// folds violations into the parent's obligations.
func runVariant(prop, repo, verif, goos string, c *an.Ctx) []map[string]interface{} {
	self, _ := os.Executable()
	tmp, err := os.MkdirTemp("", "mrocheck-variant-")
	if err != nil {
		c.Undecided("variant", "GOOS="+goos, 0, "cannot create scratch directory: "+err.Error())
		return nil
	}
	defer os.RemoveAll(tmp)
	if b, err := os.ReadFile(filepath.Join(verif, "known_findings.json")); err == nil {
		os.WriteFile(filepath.Join(tmp, "known_findings.json"), b, 0o644)
	}
	cmd := exec.Command(self, "-property", prop, "-tier", "quick", "-repo", repo, "-verif", tmp)
	cmd.Env = append(os.Environ(), "GOOS="+goos, "CGO_ENABLED=0", "MROCHECK_VARIANT="+goos)
	out, _ := cmd.CombinedOutput()
	res := map[string]interface{}{"goos": goos}
	var summary string
	nViol := 0
	for _, line := range strings.Split(string(out), "\n") {
		if strings.HasPrefix(line, "property=") {
			summary = line
		}
		if strings.HasPrefix(line, "VIOLATION ") && !strings.HasPrefix(line, "VIOLATION property=") {
			nViol++
			c.Undecided("variant", "GOOS="+goos+":"+strings.SplitN(strings.TrimPrefix(line, "VIOLATION "), " at ", 2)[0], 0, "under GOOS="+goos+": "+line)
		}
		if strings.HasPrefix(line, "UNDECIDED ") {
			nViol++
			c.Undecided("variant", "GOOS="+goos+":"+strings.SplitN(strings.TrimPrefix(line, "UNDECIDED "), " at ", 2)[0], 0, "under GOOS="+goos+": "+line)
		}
		if strings.HasPrefix(line, "load failure") || strings.HasPrefix(line, "analysis panic") {
			nViol++
			c.Undecided("variant", "GOOS="+goos+":load", 0, line)
		}
	}
	res["summary"] = summary
	res["violations"] = nViol
	if summary == "" && nViol == 0 {
		c.Undecided("variant", "GOOS="+goos+":run", 0, "the variant run produced no summary line")
	}
	return []map[string]interface{}{res}
}
